#!/usr/bin/env python3
"""Driver of the deterministic-simulation checks for bump-scope (see DESIGN.md section 3).

    python3 check.py <PROPERTY> [--tier quick|thorough] [--seed N] [--jobs N]
    python3 check.py <PROPERTY> --replay FILE

Exit codes: 0 = the property held on everything explored, 1 = violation (a line
`VIOLATION property=<id> replay=<path>` is printed), 2 = harness error (build failure, worker protocol error).

The driver rebuilds the needed world binary from /repo's working tree (shadow manifest), runs seeded
batches in separate worker processes (a dead worker is a violation at the recorded seed, never a harness
error), minimises every failing trace (ddmin over operations, then argument shrinking), replays the
minimised file in a fresh process and only then reports it. Evidence is written to evidence/<id>.json.
"""
import json, os, re, signal, subprocess, sys, time, shutil

ROOT = os.path.dirname(os.path.abspath(__file__))
SIM = os.path.join(ROOT, "sim")
TARGET = os.path.join(ROOT, "target")
WORK = os.path.join(ROOT, "work")
REPLAYS = os.path.join(ROOT, "replays")
# mutation runs (tools/try_mutation.sh, tools/mutation_matrix.py) write their evidence elsewhere so that the committed
# evidence always comes from a run on the unchanged tree
EVIDENCE = os.environ.get("VERIF_EVIDENCE_DIR") or os.path.join(ROOT, "evidence")
KNOWN = os.path.join(ROOT, "known_findings.json")

# property -> list of (world binary, share of the run budget); budgets = number of simulated runs
PROPS = {
    "C01": dict(worlds=[("arena", 0.8), ("coll", 0.2)], quick=60_000, thorough=3_000_000),
    "C02": dict(worlds=[("arena", 1.0)], quick=50_000, thorough=2_500_000),
    "C03": dict(worlds=[("arena", 1.0)], quick=50_000, thorough=2_500_000),
    "C05": dict(worlds=[("arena", 1.0)], quick=60_000, thorough=3_000_000),
    "C06": dict(worlds=[("coll", 1.0)], quick=300_000, thorough=12_000_000),
    "C07": dict(worlds=[("arena", 0.25), ("coll", 0.75)], quick=200_000, thorough=8_000_000),
    "C08": dict(worlds=[("coll", 1.0)], quick=300_000, thorough=12_000_000),
    "C09": dict(worlds=[("strs", 1.0)], quick=300_000, thorough=10_000_000),
    "C10": dict(worlds=[("arena", 1.0)], quick=60_000, thorough=3_000_000),
    "C12": dict(worlds=[("arena", 1.0)], quick=60_000, thorough=3_000_000),
    "C13": dict(worlds=[("arena", 1.0)], quick=60_000, thorough=3_000_000),
    "C14": dict(worlds=[("arena", 0.7), ("coll", 0.3)], quick=50_000, thorough=2_500_000),
    "C15": dict(worlds=[("coll", 0.8), ("strs", 0.2)], quick=300_000, thorough=12_000_000),
    "C16": dict(worlds=[("coll", 0.7), ("strs", 0.3)], quick=300_000, thorough=12_000_000),
    "C17": dict(worlds=[("lock", 1.0)], quick=200_000, thorough=8_000_000),
    "C18": dict(worlds=[("arena", 1.0)], quick=60_000, thorough=3_000_000),
    "C19": dict(worlds=[("pool", 1.0)], quick=20_000, thorough=1_000_000),
}

REAL = ["bump-scope (all of /repo/src, built from the working tree through /verif/shadow/Cargo.toml, opt-level=0, debug assertions and overflow checks on)"]
STUBS = {
    "arena": ["base allocator: SimHeap (simcore/src/heap.rs) behind 5 handle types", "callers: seeded interpreter (sim/src/bin/arena)"],
    "coll": ["base allocator: SimHeap (simcore/src/heap.rs)", "element types, closures, iterators: Tracked elements with a drop ledger and scripted callbacks (sim/src/bin/coll/elem.rs, iters.rs)",
             "std::vec::Vec<u32> reference model of the element sequence (oracle side)"],
    "lock": ["base allocator: two identically seeded SimHeaps (simcore/src/heap.rs), one per arena", "callers: seeded lock-step interpreter choosing an entry-point pair per step (sim/src/bin/lock)"],
    "pool": ["std::sync::Mutex inside BumpPool: shuttle::sync::Mutex (guarded hook in /repo, --cfg bump_scope_verif)", "threads: shuttle tasks under a seeded Random / PCT scheduler",
             "base allocator: SimHeap behind a Send + Sync handle whose every call is a scheduling point"],
    "strs": ["base allocator: SimHeap (simcore/src/heap.rs)", "Display impls / retain predicates: scripted, may fail or unwind (sim/src/bin/strs/interp.rs)",
             "std::string::String reference model (oracle side)"],
}


def log(*a):
    print(*a, file=sys.stderr, flush=True)


def cargo_env():
    env = dict(os.environ)
    env["CARGO_NET_OFFLINE"] = "true"
    env.pop("RUSTFLAGS", None)
    return env


def build(world, profile="release"):
    t0 = time.time()
    if os.environ.get("VERIF_NO_BUILD"):
        # long background sweeps build once up front and must not pick up later edits of /repo
        path = os.path.join(TARGET, profile, world)
        if not os.path.exists(path):
            log(f"HARNESS-ERROR: VERIF_NO_BUILD is set but {path} does not exist")
            sys.exit(2)
        return path
    cmd = ["cargo", "build", "--offline", "--bin", world]
    cmd += ["--release"] if profile == "release" else ["--profile", profile]
    if os.environ.get("VERIF_SMALL"):
        cmd += ["--features", "small"]
    p = subprocess.run(cmd, cwd=SIM, env=cargo_env(), stdout=subprocess.PIPE, stderr=subprocess.STDOUT, encoding="utf-8", errors="replace")
    if p.returncode != 0:
        log(p.stdout[-6000:])
        log(f"HARNESS-ERROR: building world '{world}' failed")
        sys.exit(2)
    log(f"[build] {world} ({profile}) ok in {time.time()-t0:.1f}s")
    return os.path.join(TARGET, profile, world)


def load_known():
    try:
        with open(KNOWN) as f:
            return json.load(f)
    except FileNotFoundError:
        return {"findings": [], "fixed": []}


def known_match(known, prop, cls):
    for k in known.get("findings", []):
        if k.get("property") == prop and k.get("class") == cls:
            return k
    return None


# ----------------------------------------------------------------------------------------------- replay helpers

def run_replay(binary, path, timeout=60):
    """Returns (kind, classes): kind in {'ok','viol','crash','harness'}."""
    try:
        p = subprocess.run([binary, "replay", path, "--quiet"], stdout=subprocess.PIPE, stderr=subprocess.PIPE, encoding="utf-8", errors="replace", timeout=timeout)
    except subprocess.TimeoutExpired:
        return ("crash", ["timeout"], "")
    classes = re.findall(r"^VIOLATION property=\S+ class=(\S+)", p.stdout, re.M)
    if p.returncode == 0:
        return ("ok", [], p.stdout)
    if p.returncode == 1:
        return ("viol", classes, p.stdout)
    if p.returncode == 2:
        return ("harness", [], p.stderr)
    # violations announced before the process died are kept next to the crash class
    return ("crash", classes + [crash_class(p.returncode, p.stderr)], p.stderr)


def crash_class(rc, stderr):
    sig = -rc if rc < 0 else rc - 128 if rc > 128 else rc
    try:
        name = signal.Signals(sig).name
    except ValueError:
        name = f"exit{rc}"
    tag = "unknown"
    if "memory allocation of" in stderr:
        tag = "handle_alloc_error"
    elif "unsafe precondition" in stderr or "non-unwinding panic" in stderr:
        tag = "non-unwinding-panic"
    elif name == "SIGSEGV":
        tag = "segfault"
    return f"abort:{name}:{tag}"


def split_trace(text):
    head, ops = [], []
    for line in text.splitlines():
        if line.startswith("op "):
            ops.append(line)
        elif line.strip() and not line.startswith("expect "):
            head.append(line)
    return head, ops


def join_trace(head, ops, expect):
    return "\n".join(head + [f"expect {expect}"] + ops) + "\n"


class Minimiser:
    def __init__(self, binary, prop, expect_suffix, workdir, budget=500, seconds=90):
        self.binary, self.prop, self.expect = binary, prop, expect_suffix
        self.dir = workdir
        self.budget, self.deadline = budget, time.time() + seconds
        self.n = 0

    def fails(self, head, ops):
        if self.n >= self.budget or time.time() > self.deadline:
            return False
        self.n += 1
        path = os.path.join(self.dir, f"cand_{os.getpid()}.replay")
        with open(path, "w") as f:
            f.write(join_trace(head, ops, self.expect))
        kind, classes, _ = run_replay(self.binary, path, timeout=30)
        return self.expect in classes

    def ddmin(self, head, ops):
        n = 2
        while len(ops) >= 2:
            chunk = max(1, len(ops) // n)
            reduced = False
            for i in range(0, len(ops), chunk):
                cand = ops[:i] + ops[i + chunk:]
                if cand and self.fails(head, cand):
                    ops, n, reduced = cand, max(n - 1, 2), True
                    break
            if not reduced:
                if chunk == 1:
                    break
                n = min(n * 2, len(ops))
        # one-by-one passes until fixpoint
        changed = True
        while changed:
            changed = False
            i = len(ops) - 1
            while i >= 0 and len(ops) > 1:
                cand = ops[:i] + ops[i + 1:]
                if self.fails(head, cand):
                    ops, changed = cand, True
                i -= 1
        return ops

    def shrink_args(self, head, ops):
        for i in range(len(ops)):
            toks = ops[i].split()
            j = 2
            while j < len(toks):
                t = toks[j]
                if "=" in t:
                    cand = toks[:j] + toks[j + 1:]
                    if self.fails(head, ops[:i] + [" ".join(cand)] + ops[i + 1:]):
                        toks = cand
                        continue
                elif t.isdigit() and int(t) != 0:
                    v = int(t)
                    for nv in (0, 1, v // 2):
                        if nv >= v:
                            continue
                        cand = toks[:j] + [str(nv)] + toks[j + 1:]
                        if self.fails(head, ops[:i] + [" ".join(cand)] + ops[i + 1:]):
                            toks = cand
                            break
                j += 1
            ops[i] = " ".join(toks)
        # simplify run parameters
        for k in range(len(head)):
            m = re.match(r"param (policy|fail_above|budget|init|init_size|end) (\d+)$", head[k])
            if m and int(m.group(2)) != 0:
                cand = head[:k] + [f"param {m.group(1)} 0"] + head[k + 1:]
                if self.fails(cand, ops):
                    head = cand
        return head, ops

    def run(self, text):
        head, ops = split_trace(text)
        if not self.fails(head, ops):
            return None  # does not reproduce from the file
        ops = self.ddmin(head, ops)
        head, ops = self.shrink_args(head, ops)
        ops = self.ddmin(head, ops)
        return join_trace(head, ops, self.expect)


# ----------------------------------------------------------------------------------------------- batch

def run_batch(binary, world, prop, tier, seed, total, jobs, workdir):
    """Runs `total` simulated runs split over `jobs` worker processes. Returns (summaries, violations, crashes)."""
    os.makedirs(workdir, exist_ok=True)
    per = (total + jobs - 1) // jobs
    pending = []  # (start, count)
    for k in range(jobs):
        s = k * per
        c = min(per, total - s)
        if c > 0:
            pending.append((s, c))
    procs = []
    summaries, violations, crashes = [], [], []
    serial = 0

    def spawn(start, count):
        nonlocal serial
        serial += 1
        out = os.path.join(workdir, f"{world}_{serial}.json")
        prog = os.path.join(workdir, f"{world}_{serial}.progress")
        for f in (out, prog):
            if os.path.exists(f):
                os.remove(f)
        cmd = [binary, "run", "--prop", prop, "--seed", str(seed), "--start", str(start), "--count", str(count), "--tier", tier, "--out", out, "--progress", prog]
        p = subprocess.Popen(cmd, stdout=subprocess.PIPE, stderr=subprocess.PIPE, encoding="utf-8", errors="replace")
        procs.append(dict(p=p, out=out, prog=prog, start=start, count=count))

    for (s, c) in pending:
        spawn(s, c)
    restarts = 0
    while procs:
        w = procs.pop(0)
        so, se = w["p"].communicate()
        rc = w["p"].returncode
        if rc == 0:
            with open(w["out"], encoding="utf-8", errors="replace") as f:
                summaries.append(json.load(f))
            continue
        if rc == 2:
            log(se[-3000:])
            log("HARNESS-ERROR: worker reported a harness error")
            sys.exit(2)
        # the worker died: attribute it to the run it had begun
        last = None
        done = 0
        early = []  # violations the dead run had announced before it died
        try:
            with open(w["prog"], encoding="utf-8", errors="replace") as f:
                for line in f:
                    parts = line.split()
                    if parts and parts[0] == "BEGIN":
                        last = (int(parts[1]), int(parts[2]))
                        early = []
                    elif parts and parts[0] == "END":
                        done += 1
                        early = []
                    elif parts and parts[0] == "EARLY":
                        f3 = line.rstrip("\n").split("\t")
                        early.append((f3[0].split()[1], f3[2] if len(f3) > 2 else ""))
        except FileNotFoundError:
            pass
        if last is None:
            log(se[-3000:])
            log(f"HARNESS-ERROR: worker died (rc={rc}) before starting a run")
            sys.exit(2)
        crashes.append(dict(world=world, run_seed=last[0], index=last[1], cls=crash_class(rc, se), stderr=se[-2000:]))
        for cls, msg in early:
            crashes.append(dict(world=world, run_seed=last[0], index=last[1], cls=cls, stderr="(announced before the worker died) " + msg))
        summaries.append(dict(world=world, prop=prop, runs=done, steps=0, wall_s=0, counters={"worker.died": 1}, sigs=[], states=[], samples=[], violations=[]))
        nxt = last[1] + 1
        end = w["start"] + w["count"]
        restarts += 1
        if nxt < end and restarts <= 8:
            spawn(nxt, end - nxt)
    for s in summaries:
        for v in s.get("violations", []):
            v["world"] = world
            violations.append(v)
    return summaries, violations, crashes


def sanitize(s):
    return re.sub(r"[^A-Za-z0-9_.-]+", "_", s)


def main():
    args = sys.argv[1:]
    if not args or args[0] not in PROPS:
        log("usage: check.py <PROPERTY> [--tier quick|thorough] [--seed N] [--jobs N] | --replay FILE")
        sys.exit(2)
    prop = args[0]

    def opt(name, default=None):
        return args[args.index(name) + 1] if name in args else default

    tier = opt("--tier", os.environ.get("VERIF_TIER", "quick"))
    if tier not in ("quick", "thorough"):
        tier = "quick"
    seed = int(opt("--seed", os.environ.get("VERIF_SEED", "1")))
    jobs = int(opt("--jobs", "16"))
    spec = PROPS[prop]

    if "--replay" in args:
        path = os.path.abspath(opt("--replay"))
        with open(path, encoding="utf-8", errors="replace") as f:
            world = re.search(r"^world (\S+)", f.read(), re.M).group(1)
        binary = build(world)
        kind, classes, out = run_replay(binary, path)
        if kind == "harness":
            log(out)
            sys.exit(2)
        mine = [c for c in classes if c.startswith(prop + "/") or c.startswith("abort:")]
        if kind in ("viol", "crash") and mine:
            for c in mine:
                print(f"VIOLATION property={prop} class={c} replay={path}")
            sys.exit(1)
        print("NO-VIOLATION")
        sys.exit(0)

    t0 = time.time()
    known = load_known()
    workdir = os.path.join(WORK, prop)
    shutil.rmtree(workdir, ignore_errors=True)
    os.makedirs(workdir, exist_ok=True)
    os.makedirs(os.path.join(REPLAYS, prop), exist_ok=True)
    os.makedirs(EVIDENCE, exist_ok=True)
    total = int(opt("--runs", spec[tier]))

    all_summaries, reported, known_hits = [], [], []
    binaries = {}
    for world, share in spec["worlds"]:
        binaries[world] = build(world)
    t_run = time.time()
    for world, share in spec["worlds"]:
        n = max(1, int(total * share))
        summaries, violations, crashes = run_batch(binaries[world], world, prop, tier, seed, n, jobs, workdir)
        all_summaries += summaries
        # candidates: (class, text, origin)
        cands = []
        for v in violations:
            cands.append((v["class"], v["trace"], f"seed {v['run_seed']} index {v['index']}: {v['msg']}"))
        for c in crashes:
            p = subprocess.run([binaries[world], "gen", "--prop", prop, "--seed", str(seed), "--index", str(c["index"]), "--tier", tier], stdout=subprocess.PIPE, encoding="utf-8", errors="replace")
            cands.append((c["cls"], p.stdout, f"worker died at run seed {c['run_seed']} index {c['index']}: {c['stderr'][-300:]}"))
        seen = set()
        for cls, text, origin in cands:
            if cls in seen:
                continue
            seen.add(cls)
            k = known_match(known, prop, cls)
            if k is not None:
                # a listed finding: re-observed, not minimised again (its canonical replay file is committed)
                known_hits.append((cls, k, os.path.join(ROOT, k.get("replay", ""))))
                continue
            m = Minimiser(binaries[world], prop, cls, workdir)
            small = m.run(text)
            if small is None:
                # could not reproduce from the file: report the unminimised trace, flagged
                log(f"[warn] {cls}: does not reproduce from its trace file ({origin})")
                small = join_trace(*split_trace(text), cls)
                repro = False
            else:
                repro = True
            name = f"{sanitize(cls)}-{seed}.replay"
            path = os.path.join(REPLAYS, prop, name)
            with open(path, "w") as f:
                f.write(small)
            if repro:
                kind, classes, _ = run_replay(binaries[world], path)
                repro = cls in classes
            reported.append((cls, path, origin, repro, m.n))

    wall_run = time.time() - t_run
    # ---- evidence
    runs = sum(s["runs"] for s in all_summaries)
    steps = sum(s["steps"] for s in all_summaries)
    counters = {}
    sigs, states = set(), set()
    samples = []
    for s in all_summaries:
        for k2, v in s["counters"].items():
            counters[k2] = counters.get(k2, 0) + v
        sigs.update(s["sigs"])
        states.update(s["states"])
        for t in s["samples"]:
            if len(samples) < 3:
                samples.append(t)
    faults = {k2[6:]: v for k2, v in counters.items() if k2.startswith("fault.")}
    configs = {k2[7:]: v for k2, v in counters.items() if k2.startswith("config.")}
    probes = {k2: v for k2, v in counters.items() if not k2.startswith(("fault.", "config."))}
    worlds = [w for w, _ in spec["worlds"]]
    ev = {
        "property_id": prop,
        "tier": tier,
        "seed": seed,
        "level": "exploration",
        "coverage": {
            "evaluations": runs,
            "distinct_nontrivial": len(sigs),
            "rule": "one evaluation = one simulated run (seeded history on a seeded configuration, heap policy and fault plan); "
                    "a run is non-trivial if it hit at least one probe (chunk switch, moved reallocation, fault fired, unwind through a frame, "
                    "reclaim, claim, alignment change, ...); distinct = distinct hashes of (configuration, heap policy, op-kind sequence, frame kinds) among those, counted with a set",
            "samples": samples if samples else ["<no sample>"],
            "steps_simulated_time": steps,
            "runs_per_hour": int(runs / wall_run * 3600) if wall_run > 0 else 0,
            "faults_fired": faults,
            "probes": probes,
            "configs": configs,
            "distinct_states": len(states),
            "real_components": REAL,
            "stub_components": sum((STUBS.get(w, []) for w in worlds), []),
            "worlds": worlds,
        },
        "assumptions": [
            "seeded sampling, not enumeration: a clean batch is evidence, not proof",
            "the generator only emits histories allowed by the documented safety contracts (DESIGN.md section 5)",
        ],
        "wall_s": round(time.time() - t0, 2),
        "violations": len(reported),
    }
    with open(os.path.join(EVIDENCE, f"{prop}.json"), "w") as f:
        json.dump(ev, f, indent=1)

    zero = [k2 for k2, v in probes.items() if v == 0]
    log(f"[{prop}] {runs} runs, {steps} steps, {len(sigs)} distinct non-trivial, {len(states)} states, {wall_run:.1f}s run time; faults {faults}")
    for cls, k, path in known_hits:
        print(f"KNOWN-FINDING: property={prop} {cls} {k.get('key','')} replay={path}")
    for cls, path, origin, repro, n in reported:
        print(f"VIOLATION property={prop} replay={path}")
        log(f"  class={cls} reproduces={repro} minimiser_replays={n} origin: {origin}")
    sys.exit(1 if reported else 0)


if __name__ == "__main__":
    try:
        main()
    except SystemExit:
        raise
    except BaseException:  # a bug in the driver is a harness error (exit 2), never a verdict
        import traceback
        traceback.print_exc()
        sys.exit(2)
