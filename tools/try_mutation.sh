#!/bin/bash
# usage: try_mutation.sh <patch.diff> <PROP> [<PROP>...]   - applies the patch to /repo, runs the quick checks, reverts.
set -u
PATCH=$(readlink -f "$1"); shift
cd /repo || exit 2
if ! git diff --quiet; then echo "repo has uncommitted changes" >&2; exit 2; fi
git apply "$PATCH" || { echo "patch does not apply" >&2; exit 2; }
trap 'git -C /repo checkout -- . ' EXIT
cd /verif
export VERIF_EVIDENCE_DIR=/verif/work/evidence_mut
for p in "$@"; do
  start=$(date +%s)
  python3 check.py "$p" > /verif/work/mut_$p.out 2> /verif/work/mut_$p.err; rc=$?
  echo "== $p exit=$rc ($(( $(date +%s) - start ))s)"; grep -E "VIOLATION|KNOWN-FINDING|HARNESS" /verif/work/mut_$p.out /verif/work/mut_$p.err | head -5
  grep -E "class=" /verif/work/mut_$p.err | head -4
done
