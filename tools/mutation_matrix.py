#!/usr/bin/env python3
"""Applies every seeded mutation in /verif/seeded/<id>/patch.diff to /repo in turn, runs the quick check of its
property (plus any extra properties given in EXTRA), reverts, and writes /verif/seeded/<id>/meta.json.
Never commits anything in /repo.  usage: mutation_matrix.py [<id>...]"""
import json, os, re, subprocess, sys, time

ROOT = "/verif"
EXTRA = {"C16-a": ["C09"], "C17-a": ["C03"], "C01-b": ["C10"], "C17-b": ["C15"], "C06-b": ["C08"], "C06-c": ["C16"], "C10-c": ["C01"], "C02-c": ["C01"], "C13-d": ["C01"], "C16-d": ["C02"], "C02-d": ["C01"], "C01-e": ["C16"]}


def sh(cmd, **kw):
    return subprocess.run(cmd, shell=True, capture_output=True, text=True, errors="replace", **kw)


def section(md, *names):
    for n in names:
        m = re.search(r"\*\*" + n + r"[^*]*\*\*[^\n]*\n?(.*?)(?=\n\*\*|\n#|\Z)", md, re.S | re.I)
        if m:
            first = md[m.start():m.end()]
            return " ".join(first.split())[:1500]
    return ""


def main():
    ids = sys.argv[1:] or sorted(d for d in os.listdir(f"{ROOT}/seeded") if os.path.exists(f"{ROOT}/seeded/{d}/patch.diff"))
    if sh("git -C /repo diff --quiet").returncode != 0:
        sys.exit("repo has uncommitted changes")
    for mid in ids:
        d = f"{ROOT}/seeded/{mid}"
        prop = mid.split("-")[0]
        md = open(f"{d}/MUTATION.md").read() if os.path.exists(f"{d}/MUTATION.md") else ""
        confirm = open(f"{d}/confirm.log").read().strip().splitlines()[-1] if os.path.exists(f"{d}/confirm.log") else ""
        results = {}
        if sh(f"git -C /repo apply {d}/patch.diff").returncode != 0:
            results[prop] = {"error": "patch does not apply to the current /repo"}
        else:
            try:
                for p in [prop] + EXTRA.get(mid, []):
                    t0 = time.time()
                    r = sh(f"cd {ROOT} && VERIF_EVIDENCE_DIR={ROOT}/work/evidence_mut python3 check.py {p}")
                    viol = [l for l in r.stdout.splitlines() if l.startswith("VIOLATION")]
                    classes = sorted(set(re.findall(r"class=(\S+)", r.stderr)))
                    results[p] = {"command": f"python3 check.py {p}", "exit": r.returncode, "seconds": round(time.time() - t0, 1),
                                  "violation_lines": len(viol), "classes": classes, "caught": r.returncode == 1 and len(viol) > 0}
            finally:
                sh("git -C /repo checkout -- .")
                sh(f"rm -f {ROOT}/replays/*/*-[0-9].replay {ROOT}/replays/*/*-[0-9][0-9].replay")
        meta = {
            "id": mid, "property": prop,
            "origin": open(f"{d}/origin.txt").read().strip() if os.path.exists(f"{d}/origin.txt") else "fresh sub-agent given only the property text and its own scratch worktree of /repo",
            "files_changed": re.findall(r"^\+\+\+ b/(\S+)", open(f"{d}/patch.diff").read(), re.M),
            "change": section(md, "Change"), "needs_to_manifest": section(md, "Needed to manifest", "What is needed to manifest", "Needs"),
            "independent_confirmation": {"script": "tools/confirm_mutation.sh (suite with the patch, demo with and without it)", "result": confirm},
            "checks_run": results,
            "caught_by": [p for p, r in results.items() if r.get("caught")],
            "apply": f"git -C /repo apply /verif/seeded/{mid}/patch.diff", "undo": "git -C /repo checkout -- .",
        }
        json.dump(meta, open(f"{d}/meta.json", "w"), indent=1)
        print(mid, {p: (r.get("exit"), r.get("classes")) for p, r in results.items()}, flush=True)
    # leave the tree and the binaries in the unmutated state
    sh("git -C /repo checkout -- .")


if __name__ == "__main__":
    main()
