#!/usr/bin/env python3
"""Runs seeded mutations against the quick checks WITHOUT touching /repo, so that development builds and evidence
runs against the unchanged tree can go on at the same time.

For each <id>: a scratch git worktree of /repo (HEAD) gets /verif/seeded/<id>/patch.diff applied; a scratch copy of
/verif (committed + uncommitted sources, no build output) gets its shadow manifest pointed at that worktree; the quick
check of the property (plus EXTRA ones) runs there exactly as `python3 check.py <prop>` does in /verif; the result is
written to /verif/seeded/<id>/meta.json; the scratch copy, worktree and build output are removed.
Equivalent to tools/mutation_matrix.py (apply to /repo -> check -> revert) except for where the patched source lives.

usage: mutation_scratch.py [--keep] <id>...        (scratch root: /var/tmp/ms)
"""
import json, os, re, shutil, subprocess, sys, time

ROOT = "/verif"
SCRATCH = "/var/tmp/ms"
sys.path.insert(0, os.path.join(ROOT, "tools"))
from mutation_matrix import EXTRA, section  # noqa: E402


def sh(cmd, **kw):
    return subprocess.run(cmd, shell=True, capture_output=True, text=True, errors="replace", **kw)


def run_one(mid, keep=False):
    d = f"{ROOT}/seeded/{mid}"
    prop = mid.split("-")[0]
    base = f"{SCRATCH}/{mid}"
    shutil.rmtree(base, ignore_errors=True)
    os.makedirs(base)
    wt, vf = f"{base}/repo", f"{base}/verif"
    sh(f"git -C /repo worktree prune")
    r = sh(f"git -C /repo worktree add --detach {wt} HEAD")
    if r.returncode != 0:
        return {"error": "worktree: " + r.stderr[-300:]}
    results = {}
    try:
        if sh(f"git -C {wt} apply {d}/patch.diff").returncode != 0:
            results[prop] = {"error": "patch does not apply to the current /repo HEAD"}
        else:
            sh(f"rsync -a --exclude /target --exclude /sim/target --exclude /work --exclude /.git --exclude /seeded --exclude /evidence {ROOT}/ {vf}/")
            man = f"{vf}/shadow/Cargo.toml"
            s = open(man).read().replace('path = "/repo/src/lib.rs"', f'path = "{wt}/src/lib.rs"')
            open(man, "w").write(s)
            # reuse the already built dependencies (simcore, shuttle) to save a minute; the worlds and bump-scope rebuild
            for p in [prop] + EXTRA.get(mid, []):
                t0 = time.time()
                r = sh(f"cd {vf} && VERIF_EVIDENCE_DIR={vf}/work/evidence_mut nice -n 5 python3 check.py {p}")
                viol = [l for l in r.stdout.splitlines() if l.startswith("VIOLATION")]
                classes = sorted(set(re.findall(r"class=(\S+)", r.stderr)))
                results[p] = {"command": f"python3 check.py {p}", "exit": r.returncode, "seconds": round(time.time() - t0, 1),
                              "violation_lines": len(viol), "classes": classes, "caught": r.returncode == 1 and len(viol) > 0}
                if r.returncode not in (0, 1):
                    results[p]["stderr_tail"] = r.stderr[-1500:]
    finally:
        if not keep:
            sh(f"git -C /repo worktree remove --force {wt}")
            shutil.rmtree(base, ignore_errors=True)
            sh("git -C /repo worktree prune")
    return results


def main():
    args = [a for a in sys.argv[1:] if not a.startswith("--")]
    keep = "--keep" in sys.argv
    for mid in args:
        d = f"{ROOT}/seeded/{mid}"
        prop = mid.split("-")[0]
        md = open(f"{d}/MUTATION.md").read() if os.path.exists(f"{d}/MUTATION.md") else ""
        confirm = open(f"{d}/confirm.log").read().strip().splitlines()[-1] if os.path.exists(f"{d}/confirm.log") else ""
        results = run_one(mid, keep)
        meta = {
            "id": mid, "property": prop,
            "origin": open(f"{d}/origin.txt").read().strip() if os.path.exists(f"{d}/origin.txt") else "fresh sub-agent given only the property text and its own scratch worktree of /repo",
            "files_changed": re.findall(r"^\+\+\+ b/(\S+)", open(f"{d}/patch.diff").read(), re.M),
            "change": section(md, "Change"), "needs_to_manifest": section(md, "Needed to manifest", "What is needed to manifest", "Needs"),
            "independent_confirmation": {"script": "tools/confirm_mutation.sh (suite with the patch, demo with and without it)", "result": confirm},
            "how_run": "tools/mutation_scratch.py: scratch worktree of /repo HEAD with the patch applied + scratch copy of /verif whose shadow manifest points at it; /repo itself untouched",
            "checks_run": results,
            "caught_by": [p for p, r in results.items() if isinstance(r, dict) and r.get("caught")],
            "apply": f"git -C /repo apply /verif/seeded/{mid}/patch.diff", "undo": "git -C /repo checkout -- .",
        }
        json.dump(meta, open(f"{d}/meta.json", "w"), indent=1)
        print(mid, {p: (r.get("exit"), r.get("classes")) if isinstance(r, dict) else r for p, r in results.items()}, flush=True)


if __name__ == "__main__":
    main()
