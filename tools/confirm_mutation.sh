#!/bin/bash
# usage: confirm_mutation.sh <worktree> <id>
# Confirms a sub-agent's mutation independently: (a) patch applies to a clean checkout and the crate's whole suite
# passes with it (demo moved aside), (b) the demo fails with it, (c) the demo passes without it.
# Writes the result to /verif/seeded/<id>/ (patch.diff, demo, MUTATION.md, confirm.log).
set -u
WT=$1; ID=$2; OUT=/verif/seeded/$ID
mkdir -p $OUT
cd $WT || exit 2
cp patch.diff $OUT/patch.diff; cp tests/mutation_demo.rs $OUT/mutation_demo.rs; cp MUTATION.md $OUT/MUTATION.md 2>/dev/null
LOG=$OUT/confirm.log; : > $LOG
export CARGO_NET_OFFLINE=true
git checkout -q -- src && git apply patch.diff || { echo "PATCH-DOES-NOT-APPLY" >> $LOG; exit 1; }
mv tests/mutation_demo.rs /tmp/mutation_demo_$ID.rs
echo "## suite with mutation" >> $LOG
cargo test --workspace --no-fail-fast --offline 2>&1 | grep -E "^test result|FAILED|failed|panicked at" | sort | uniq -c | sort -rn | head -20 >> $LOG
SUITE_FAIL=$(grep -c -E "FAILED|[1-9][0-9]* failed" $LOG)
mv /tmp/mutation_demo_$ID.rs tests/mutation_demo.rs
echo "## demo with mutation" >> $LOG
cargo test --offline --test mutation_demo 2>&1 | grep -E "^test |^test result|panicked|signal" | head -20 >> $LOG
WITH=$(cargo test --offline --test mutation_demo >/dev/null 2>&1; echo $?)
git checkout -q -- src
echo "## demo without mutation" >> $LOG
cargo test --offline --test mutation_demo 2>&1 | grep -E "^test result" | head -5 >> $LOG
WITHOUT=$(cargo test --offline --test mutation_demo >/dev/null 2>&1; echo $?)
git apply patch.diff
echo "SUMMARY suite_failures=$SUITE_FAIL demo_with_mutation_exit=$WITH demo_without_mutation_exit=$WITHOUT" >> $LOG
tail -1 $LOG
