#!/usr/bin/env python3
"""Determinism proof for the simulator.

For every world (and one property it serves) the same block of run indices is executed three times, split over
16, 5 and 1 worker processes.  Every run is a pure function of (base seed, world, property, index), so the union of
the per-run trace signatures (hash of configuration, operation kinds and the set of probe points the run hit), the
set of abstract states reached, every counter (faults fired, probes, configurations) and the step total must be
identical whatever the partition and process.  Additionally a sample of indices is replayed twice with
SIM_VERBOSE=1 and the complete per-operation logs (operation, outcome, offsets, model) are diffed byte for byte.

usage: determinism.py [runs-per-world]      exit 0 = deterministic, 1 = divergence (printed), 2 = harness error
"""
import json, os, subprocess, sys, tempfile, hashlib

ROOT = os.path.dirname(os.path.dirname(os.path.abspath(__file__)))
WORLDS = [("arena", ["C01", "C03", "C07", "C14", "C18"]), ("coll", ["C06", "C08", "C15"]), ("strs", ["C09", "C16"]), ("lock", ["C17"]), ("pool", ["C19"])]


def run(binary, prop, seed, total, jobs, tmp):
    procs = []
    per = (total + jobs - 1) // jobs
    for j in range(jobs):
        start = j * per
        count = min(per, total - start)
        if count <= 0:
            break
        out = os.path.join(tmp, f"out{jobs}_{j}.json")
        cmd = [binary, "run", "--prop", prop, "--seed", str(seed), "--start", str(start), "--count", str(count), "--tier", "quick", "--out", out, "--progress", out + ".prog"]
        procs.append((subprocess.Popen(cmd, stdout=subprocess.DEVNULL, stderr=subprocess.DEVNULL), out))
    sigs, states, counters, steps = set(), set(), {}, 0
    for p, out in procs:
        if p.wait() not in (0, 1):
            print(f"harness error: worker exit {p.returncode}")
            sys.exit(2)
        d = json.load(open(out))
        sigs.update(d["sigs"]); states.update(d["states"]); steps += d["steps"]
        for k, v in d["counters"].items():
            counters[k] = counters.get(k, 0) + v
    return sorted(sigs), sorted(states), dict(sorted(counters.items())), steps


def verbose_log(binary, prop, seed, index, tmp):
    f = os.path.join(tmp, "one.replay")
    g = subprocess.run([binary, "gen", "--prop", prop, "--seed", str(seed), "--index", str(index), "--tier", "quick"], capture_output=True, text=True)
    open(f, "w").write(g.stdout)
    env = dict(os.environ, SIM_VERBOSE="1")
    r = subprocess.run([binary, "replay", f], capture_output=True, env=env)
    return hashlib.sha256(r.stdout + b"\0" + r.stderr).hexdigest(), g.returncode


def main():
    total = int(sys.argv[1]) if len(sys.argv) > 1 else 20000
    seed = int(os.environ.get("VERIF_SEED", "20260922"))
    bad = 0
    for world, props in WORLDS:
        binary = f"{ROOT}/target/release/{world}"
        if not os.path.exists(binary):
            print(f"missing {binary}: run the setup command first"); sys.exit(2)
        for prop in props:
            n = total if world != "pool" else max(total // 10, 500)
            with tempfile.TemporaryDirectory(dir=f"{ROOT}/work") as tmp:
                a = run(binary, prop, seed, n, 16, tmp)
                b = run(binary, prop, seed, n, 5, tmp)
                c = run(binary, prop, seed ^ 0, n, 1 if n <= 5000 else 3, tmp)
                same = a == b == c
                logs_same, nlogs = True, 0
                for index in range(0, n, max(n // 40, 1)):
                    h1, rc = verbose_log(binary, prop, seed, index, tmp)
                    if rc != 0:
                        break
                    h2, _ = verbose_log(binary, prop, seed, index, tmp)
                    nlogs += 1
                    if h1 != h2:
                        logs_same = False
                        print(f"  verbose log of {world}/{prop} index {index} differs between two replays")
                print(f"{world:5} {prop}: {n} runs x 3 partitions (16/5/3 processes): sigs={len(a[0])} states={len(a[1])} steps={a[3]} -> {'identical' if same else 'DIVERGED'};"
                      f" {nlogs} verbose logs replayed twice -> {'identical' if logs_same else 'DIVERGED'}")
                if not same:
                    for name, x, y in (("sigs", a[0], b[0]), ("states", a[1], b[1]), ("counters", a[2], b[2]), ("steps", a[3], b[3])):
                        if x != y:
                            print(f"  {name} differ (16 vs 5 workers)")
                    bad += 1
                if not logs_same:
                    bad += 1
    sys.exit(1 if bad else 0)


main()
