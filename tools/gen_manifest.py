#!/usr/bin/env python3
"""Writes /verif/MANIFEST.json from the table below (kept in one place so it stays valid and consistent)."""
import json, os
ROOT = os.path.join(os.path.dirname(os.path.abspath(__file__)), '..')

TECH = "deterministic simulation with fault injection: "
claims = {
 "C01": ("sim-arena+sim-coll", "5 C01", "(collection world, 20 % of the runs: the buffers of all live vectors including their spare capacity, split-off parts and unrelated neighbouring allocations are pairwise disjoint and neighbours are re-read after every step) Every block handed out through any carrier (Bump/BumpScope/&/&mut/WithoutDealloc/WithoutShrink/dyn) is checked, in seeded histories on seeded configurations, heap policies and fault plans, for: inside a chunk's content range that is inside a live SimHeap grant, aligned, large enough, disjoint from every live block, behind the bump position.",
         TECH + "seeded histories on a simulated base allocator; per-step geometric invariants over all live blocks"),
 "C02": ("sim-arena", "5 C02", "Every live block holds a unique byte pattern that is re-read after every operation; reallocation prefixes, zeroed tails, committed prepared ranges and a write-set diff of all granted memory across each reallocation are checked; red zones around chunks.",
         TECH + "pattern re-read of all live blocks after every step, write-set diff across reallocations"),
 "C03": ("sim-arena", "5 C03", "Allocated byte count, position and current chunk are compared at every scope exit / guard reset / reset_to / unwinding exit with the values at entry; fault-free scopes are replayed and must make zero granted base-allocator calls; fixed workloads in a reset() loop must become and stay quiet.",
         TECH + "entry/exit state comparison incl. unwinding through nested scopes; replay and bounded-liveness (reset loop) checks counted at the allocator seam"),
 "C05": ("sim-arena", "5 C05", "SimHeap ledger over the whole run: each granted block released exactly once with the requested alignment and a size between requested and granted, nothing outstanding after drop, poison of released blocks and red zones intact; reset keeps exactly the largest chunk; refusals injected at arbitrary base calls.",
         TECH + "ledger of every base-allocator call checked over the recorded history, refusals at arbitrary call indices"),
 "C06": ("sim-coll", "5 C06", "Tracked elements with a drop ledger in all five vector kinds, their iterators and the slice initialisers (init_fill / _with / _iter / init_clone / init_move on alloc_uninit_slice); an unwind is injected at the j-th callback (Clone, closure, iterator next, predicate, Drop) of an operation; never a second drop, never access to a dead element, and at the end of the run every element dropped exactly once unless leaked on purpose or a Drop impl panicked.",
         TECH + "callback-panic injection at arbitrary callback positions; drop ledger as history checker"),
 "C07": ("sim-arena+sim-coll", "5 C07", "Allocator-interface and try_ calls under every SimHeap fault kind must return Err without unwinding; afterwards the C01/C02/C05/C06/C10 oracles keep running on the same arena and the collection model (which did not apply the failed operation) must still match; giant / overflowing requests.",
         TECH + "allocation refusals (k-th call, burst, size limit, byte budget, giant requests) attached to operations; state compared with a model that skipped the failed operation"),
 "C08": ("sim-coll", "5 C08", "Each vector kind runs in lock-step with a std Vec model of the element values (mirrored for MutBumpVecRev): contents, length, return values, yielded elements and panic/no-panic on boundary and out-of-range arguments; capacity promises of with_capacity/reserve and buffer-address stability; fixed vectors never move and refuse when full; zero-sized elements report unlimited capacity.",
         TECH + "seeded operation sequences against a sequential reference model under simulated chunk sizes / grant policies and injected unwinds (refinement checking; the simulation-specific part is the environment and the faults)"),
 "C09": ("sim-strs", "5 C09", "BumpBox<str>, FixedBumpString, BumpString and MutBumpString run in lock-step with std::string::String on text mixing 1-4 byte characters, NULs and combining marks with every byte index (boundary or not) as argument: contents, return values, panic/no-panic, from_utf8/utf16 (+lossy) on malformed input, formatting with Display impls that fail or unwind mid-way, C-string constructors; core::str::from_utf8 of the raw bytes must succeed after every operation including unwound and failed ones.",
         TECH + "seeded operation sequences against std::String under simulated chunk sizes, allocation refusals and callbacks that fail or unwind (refinement checking; the simulation-specific part is the environment and the faults)"),
 "C10": ("sim-arena", "5 C10", "After every operation the Stats/Chunk identities, list symmetry (small_to_big vs big_to_small vs the list walked from the current chunk through iter_prev/iter_next and prev()/next(), typed and type-erased), strictly growing sizes, header size/alignment per base-allocator kind, position alignment in force, count() = outstanding SimHeap blocks and AnyStats = Stats field by field are checked.",
         TECH + "per-step invariants over the public statistics API, cross-checked with the allocator seam's ledger"),
 "C12": ("sim-arena", "5 C12", "At the base-allocator seam: every requested chunk layout is well formed (multiple of 16 / header alignment, header alignment, header + request), each later chunk >= 2x previous - 16, a primitive request never obtains two chunks, giant layouts never arrive wrapped; with_capacity fits its layout.",
         TECH + "observation of every chunk request at the base-allocator seam under over-granting policies and 5 header layouts"),
 "C13": ("sim-arena", "5 C13", "allocate/deallocate/allocate returns the same address when deallocation is on; growing the tip allocation upward with room stays in place; allocated() is monotone except for tip reclaim / scope exits / resets; opt-out settings and wrappers never change / never decrease it.",
         TECH + "seeded histories through every carrier/wrapper; address and allocated() ledger per step"),
 "C14": ("sim-arena+sim-coll", "5 C14", "Operations on the claimed original handle are interleaved with operations on the claim guard: every non-zero request fails (Err from try_/Allocator calls, the unwinding 'claimed' panic from panicking ones, also through trait objects; an abort is a violation), stats are all zero, a second claim unwinds, nothing done through the claimed handle changes what the guard sees, and after the guard ends (also by unwinding) the original handle resumes exactly where the guard stopped. In the collection world BumpVecs created before the claim are pushed / extended / reserved / resized / shrunk / dropped while the guard is alive and allocating: growth must fail leaving the contents unchanged, the guard's allocated bytes and chunk count must not change, and the vectors keep working after the claim ends.",
         TECH + "seeded interleaving of two handles onto one arena, unwinding through the guard"),
 "C15": ("sim-coll+sim-strs", "5 C15", "(string world: MutBumpString, alloc_fmt_mut and alloc_cstr_fmt_mut get the same position oracles; collection world additionally drives alloc_try_with_mut with closures that return Ok, Err or unwind and values that need another chunk) While a MutBumpVec / MutBumpVecRev / alloc_iter_mut(_rev) is being filled, dropped or unwound the bump position of every chunk up to the original current chunk must not move and a later chunk that became current must be empty; finalising yields exactly the pushed elements and advances allocated() by at most size + element padding + minimum-alignment padding.",
         TECH + "chunk positions recorded before creation and compared after every fill step, drop, unwind and finalise; lying size hints, refusals and callback panics injected"),
 "C16": ("sim-coll+sim-strs", "5 C16", "(string world: split_off of BumpBox<str> / FixedBumpString / BumpString over all byte ranges against String: both parts hold exactly the expected text, capacities add up, no sibling string changes when a part is grown, shrunk, converted or dropped) split_off / split_at / split_first/last / split_off_first/last / partition / merge on BumpBox<[T]>, FixedBumpVec and BumpVec against the model: parts partition the elements exactly and in order, capacities add up, merge restores adjacent parts and rejects non-adjacent ones; afterwards operations on one part (growth, shrink, drop, dealloc, conversion) are interleaved with unrelated allocations and every sibling and neighbour is re-checked after each step.",
         TECH + "seeded follow-up interleaving on the parts against allocator state; sibling contents and neighbouring allocations re-read after every step"),
 "C18": ("sim-arena", "5 C18", "(runs may end with a conversion that has a run-time requirement: with_settings to a guaranteed-allocated type on an arena that has / has not a chunk, to a non-claimable type on an arena that is / is not claimed by a leaked guard; it must panic exactly when the requirement is not met and otherwise hand the arena over unchanged) The bump position is checked to be a multiple of the minimum alignment in force at region entry, after every operation inside aligned / scoped_aligned regions (all outer/inner pairs, nested, with chunk switches and unwinding), and of the outer alignment after exit; scoped_aligned restores the entry position exactly.",
         TECH + "per-step position invariant with the interpreter tracking the alignment in force; unwinding out of regions"),
 "C17": ("sim-lock", "5 C17", "Two arenas with identical settings on two identically seeded SimHeaps execute the same history in lock-step; every step issues the same request through two different entry points (Bump / BumpScope / & / &mut / WithoutDealloc / WithoutShrink / dyn trait objects x panicking / try_ / typed sized / typed slice / generic layout / Allocator trait, alloc_try_with and its _mut / try_ twins, grow / shrink / deallocate / reserve / prepare+commit through different carriers, nested scopes, checkpoints); block offsets, lengths, contents, allocated(), remaining(), chunk count and position must stay equal, and the two heaps must see the same number of base-allocator calls.",
         TECH + "lock-step execution of two arenas in identical simulated environments, entry-point pair chosen per step by the seed"),
 "C19": ("sim-pool", "5 C19", "BumpPool under shuttle's seeded Random and PCT schedulers (the pool's mutex is shuttle's through the guarded hook; every base-allocator call is a scheduling point): 2-5 threads x 1-4 rounds of get / try_get / get_with_size / get_with_capacity, patterned allocations, guard drop or forget, re-get; invariants at every event: the arena behind each live guard is unique, arenas created <= peak live guards, no arena lost; all blocks re-read intact after the arenas moved between threads; pool reset / reset_to_start / drop checked against the SimHeap ledger.",
         TECH + "controlled thread scheduling (shuttle Random + PCT, one seeded schedule per run), allocation refusals in try_get*; invariants per event and ledger check over the history"),
}
na = [
 ("C04", "compile-time property over programs: nothing executes, so there is no run, schedule, fault or history to simulate (DESIGN.md section 6)"),
 ("C11", "four pure functions of their input without state, environment, fault or interleaving; input-space search/proof is a different technique family (DESIGN.md section 6)"),
]
pending = {}
for p, w in pending.items():
    if p not in claims:
        na.append((p, f"not claimed yet: the {w} serving this property (DESIGN.md section 5) is not built at this commit"))

NOTE = ("Trusted: SimHeap, the interpreter's model (built from the documented safety contracts), the reference models, rustc. Sampling, not enumeration. "
        "Bounds: arena world <= 120 operations per run, nesting <= 7, 32 settings families x 5 minimum alignments (typed entry points on 16 of them), 5 base-allocator kinds, 5 grant policies; "
        "collection world <= 80 operations per run, length <= 60, 7 settings x 3 of 5 element types (1/1, 4/4, 24/8, 16/16, zero-sized) x 5 vector kinds; string world <= 60 operations per run, <= 200 bytes, 4 settings x 4 string kinds; lock-step world <= 100 step pairs per run, 12 settings, 6 element types; pool world 2-5 threads x 1-4 rounds, one schedule per run (shuttle does not shrink schedules: minimisation shrinks rounds and threads).")
checks = []
for p in sorted(claims):
    eng, ref, text, tech = claims[p]
    checks.append({
        "property_id": p,
        "quick_cmd": f"python3 check.py {p} --tier quick",
        "thorough_cmd": f"python3 check.py {p} --tier thorough",
        "evidence_file": f"/verif/evidence/{p}.json",
        "replay_cmd_template": f"python3 check.py {p} --replay {{path}}",
        "engine": eng,
        "level_claimed": {"category": "exploration", "text": text + " Seeded search over histories x configurations x fault sequences; a clean batch is evidence, not proof.", "design_ref": "DESIGN.md section " + ref},
        "level_note": NOTE,
        "technique": tech,
    })
m = {
 "version": 1,
 "setup_cmd": "cd /verif/sim && CARGO_NET_OFFLINE=true cargo build --release --offline --bins",
 "hooks": {
   "guard": "--cfg bump_scope_verif",
   "enable": "rustflags in /verif/.cargo/config.toml; /repo is built through the shadow manifest /verif/shadow/Cargo.toml ([lib] path = /repo/src/lib.rs) which adds the shuttle dependency",
   "baseline_off_cmd": "cd /repo && cargo test --workspace --no-fail-fast --offline",
   "source_commits": ["6da00b2"],
   "add_only": True,
 },
 "engines": [
   {"name": "sim-arena", "path": "/verif/sim/src/bin/arena", "serves_properties": [p for p in sorted(claims) if "arena" in claims[p][0]],
    "kind_free_text": "seeded interpreter driving one real Bump<A,S> on SimHeap through every carrier; 32 settings families x 5 minimum alignments"},
   {"name": "sim-coll", "path": "/verif/sim/src/bin/coll", "serves_properties": [p for p in sorted(claims) if "coll" in claims[p][0]],
    "kind_free_text": "seeded interpreter driving the five vector kinds with tracked elements against a reference model and a drop ledger, on SimHeap"},
   {"name": "sim-strs", "path": "/verif/sim/src/bin/strs", "serves_properties": [p for p in sorted(claims) if "strs" in claims[p][0]],
    "kind_free_text": "seeded interpreter driving the four string types against std::string::String on SimHeap"},
   {"name": "sim-lock", "path": "/verif/sim/src/bin/lock", "serves_properties": ["C17"],
    "kind_free_text": "lock-step interpreter over two arenas on two identically seeded SimHeaps, 12 settings"},
   {"name": "sim-pool", "path": "/verif/sim/src/bin/pool", "serves_properties": ["C19"],
    "kind_free_text": "BumpPool scenario under shuttle (Random/PCT), one seeded schedule per run"},
   {"name": "simcore", "path": "/verif/simcore", "serves_properties": sorted(claims), "kind_free_text": "PRNG, SimHeap (the base-allocator seam), trace/replay format, worker protocol"},
 ],
 "checks": checks,
 "notes": "Driver: /verif/check.py (spawns 16 worker processes, captures crashes, minimises, writes evidence). Known findings and fixed defects: /verif/known_findings.json. VERIF_SEED / VERIF_TIER are honoured.",
 "not_applicable": [{"property_id": p, "reason": r} for p, r in na],
}
json.dump(m, open(os.path.join(ROOT, "MANIFEST.json"), "w"), indent=1)
print("claimed:", len(checks), "not applicable / pending:", len(na))
