fn main(){}
