//! Lock-step world (C17): two arenas with identical settings on two identically seeded SimHeaps execute the
//! same requests, each step through two *different* entry points; offsets, lengths, contents, allocated()
//! and chunk counts must stay equal.

// step.rs is compiled once per setting so that the monomorphised code is spread over codegen units
#[path = "step.rs"]
mod s0;
#[path = "step.rs"]
mod s1;
#[path = "step.rs"]
mod s2;
#[path = "step.rs"]
mod s3;
#[path = "step.rs"]
mod s4;
#[path = "step.rs"]
mod s5;
#[path = "step.rs"]
mod s6;
#[path = "step.rs"]
mod s7;
#[path = "step.rs"]
mod s8;
#[path = "step.rs"]
mod s9;
#[path = "step.rs"]
mod s10;
#[path = "step.rs"]
mod s11;

use bump_scope::settings::BumpSettings;
use sim::heap::{self, H0, H8, Policy};
use sim::rng::Rng;
use sim::runner::{Stats, Tier, World, main_for};
use sim::trace::{Op, Trace, Violation};

pub const OP_NAMES: &[&str] = &["alloc", "slice", "grow", "shrink", "dealloc", "reserve", "prep", "enter", "exit", "reset_to", "checkpoint", "str", "try_with", "zst"];
pub const K_ALLOC: u16 = 0;
pub const K_SLICE: u16 = 1;
pub const K_GROW: u16 = 2;
pub const K_SHRINK: u16 = 3;
pub const K_DEALLOC: u16 = 4;
pub const K_RESERVE: u16 = 5;
pub const K_PREP: u16 = 6;
pub const K_ENTER: u16 = 7;
pub const K_EXIT: u16 = 8;
pub const K_RESET_TO: u16 = 9;
pub const K_CHECKPOINT: u16 = 10;
pub const K_STR: u16 = 11;
pub const K_TRY_WITH: u16 = 12;
pub const K_ZST: u16 = 13;

pub const N_SETTINGS: u64 = 12;

struct LockWorld;

impl World for LockWorld {
    const NAME: &'static str = "lock";
    fn op_names() -> &'static [&'static str] {
        OP_NAMES
    }
    fn props() -> &'static [&'static str] {
        &["C17"]
    }
    fn generate(prop: &str, run_seed: u64, _index: u64, tier: Tier) -> Trace {
        let root = Rng::new(run_seed);
        let mut rc = root.fork(1);
        let mut r = root.fork(2);
        let mut t = Trace { world: "lock".into(), prop: prop.into(), seed: run_seed, ..Default::default() };
        t.set_param("setting", rc.below(N_SETTINGS));
        t.set_param("policy", rc.below(5));
        t.set_param("heap_seed", rc.next() >> 16);
        t.set_param("init", rc.below(3));
        let w: &[(u16, u32)] = &[(K_ALLOC, 22), (K_SLICE, 16), (K_GROW, 8), (K_SHRINK, 6), (K_DEALLOC, 8), (K_RESERVE, 3), (K_PREP, 4), (K_ENTER, 4), (K_EXIT, 4), (K_CHECKPOINT, 2), (K_RESET_TO, 2), (K_STR, 4), (K_TRY_WITH, 6), (K_ZST, 4)];
        let weights: Vec<u32> = (0..OP_NAMES.len() as u16).map(|k| w.iter().find(|x| x.0 == k).map_or(0, |x| x.1)).collect();
        let n = 4 + r.below(if tier == Tier::Quick { 50 } else { 100 });
        for _ in 0..n {
            let k = r.weighted(&weights) as u16;
            t.ops.push(Op::new(k, &[r.below(64), r.below(64), r.below(1 << 12), r.below(1 << 12), r.below(64), r.below(64)]));
        }
        t
    }
    fn execute(trace: &Trace, stats: &mut Stats) -> Vec<Violation> {
        let seed = trace.param_or("heap_seed", 1);
        let pol = Policy::from_u64(trace.param_or("policy", 0));
        heap::with(0, |h| h.reset(seed, pol));
        heap::with(1, |h| h.reset(seed, pol));
        let setting = trace.param_or("setting", 0) % N_SETTINGS;
        stats.sig_mix(setting);
        stats.bump(&format!("config.setting{setting:02}"));
        macro_rules! go {
            ($m:ident, $AL:ty, $AR:ty, $S:ty) => {{
                let mut it = $m::Lock::new(trace, stats);
                $m::run::<$AL, $AR, $S>(&mut it);
                it.viols
            }};
        }
        match setting {
            0 => go!(s0, H8<0>, H8<1>, BumpSettings<1, true, true, true, true, true, 1>),
            1 => go!(s1, H8<0>, H8<1>, BumpSettings<1, false, true, true, true, true, 1>),
            2 => go!(s2, H0<0>, H0<1>, BumpSettings<4, true, true, true, true, true, 512>),
            3 => go!(s3, H0<0>, H0<1>, BumpSettings<4, false, true, true, true, true, 1>),
            4 => go!(s4, H8<0>, H8<1>, BumpSettings<16, true, true, true, true, true, 1>),
            5 => go!(s5, H8<0>, H8<1>, BumpSettings<16, false, true, true, true, true, 512>),
            6 => go!(s6, H0<0>, H0<1>, BumpSettings<1, true, false, true, true, true, 1>),
            7 => go!(s7, H8<0>, H8<1>, BumpSettings<8, false, false, true, true, true, 1>),
            8 => go!(s8, H8<0>, H8<1>, BumpSettings<2, true, true, true, false, true, 1>),
            9 => go!(s9, H0<0>, H0<1>, BumpSettings<2, false, true, true, true, false, 1>),
            10 => go!(s10, H8<0>, H8<1>, BumpSettings<8, true, false, true, false, false, 512>),
            _ => go!(s11, H0<0>, H0<1>, BumpSettings<1, false, false, true, false, false, 1>),
        }
    }
}

fn main() {
    main_for::<LockWorld>();
}
