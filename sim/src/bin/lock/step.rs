//! One lock-step run: the same request through two different entry points on two arenas in equal states.

use std::alloc::Layout;
use std::ptr::NonNull;

use bump_scope::alloc::Allocator;
use bump_scope::settings::BumpAllocatorSettings;
use bump_scope::traits::{BumpAllocator, BumpAllocatorCore, BumpAllocatorCoreScope, BumpAllocatorTyped, BumpAllocatorTypedScope, MutBumpAllocatorCoreScope};
use bump_scope::{BaseAllocator, Bump, BumpScope, Checkpoint, WithoutDealloc, WithoutShrink};

use sim::heap;
use sim::runner::{Stats, harness_bug};
use sim::trace::{Op, Trace, Violation};

use crate::*;

pub const CARRIER_NAMES: [&str; 10] =
    ["BumpScope", "&BumpScope", "&mut BumpScope", "WithoutDealloc<&BumpScope>", "WithoutShrink<&BumpScope>", "dyn BumpAllocatorCoreScope", "dyn MutBumpAllocatorCoreScope", "&Bump", "&mut Bump", "Bump"];
pub const N_SCOPE_CARRIERS: usize = 7;
pub const N_METHODS: usize = 24;
pub const METHOD_NAMES: [&str; N_METHODS] = [
    "Allocator::allocate", "Allocator::allocate_zeroed", "try_allocate_layout", "allocate_layout", "try_allocate_slice", "allocate_slice", "allocate_slice_for",
    "try_alloc_slice_copy", "alloc_slice_copy", "alloc_slice_fill_with", "alloc_uninit_slice+init_copy", "prepare_slice_allocation+allocate_prepared_slice", "try_alloc",
    "alloc", "alloc_with", "try_allocate_sized", "allocate_sized", "alloc_uninit+init", "alloc_default",
    "try_alloc_slice_clone", "alloc_slice_clone", "alloc_slice_move", "try_alloc_slice_move", "alloc_uninit_slice_for+init_copy",
];
/// methods 12..=18 carry a single value; with `n != 1` they fold onto the slice methods 0..=11
pub fn fold_method(m: usize, n: usize) -> usize {
    if n != 1 && (12..19).contains(&m) { m % 12 } else { m }
}

#[derive(Clone, Copy, Debug)]
pub struct Blk {
    pub ptr: *mut u8,
    pub len: usize,
    pub size: usize,
    pub align: usize,
    pub ty: u8,
    pub n: usize,
    /// nesting depth of the scope that owns the block
    pub depth: usize,
    /// creation sequence number (for reset_to)
    pub seq: usize,
}

pub struct Lock<'t> {
    pub trace: &'t Trace,
    pub pc: usize,
    pub cur_op: usize,
    pub viols: Vec<Violation>,
    pub stats: &'t mut Stats,
    pub blocks: Vec<(Blk, Blk)>,
    pub frames: Vec<usize>,
    pub cps: Vec<Vec<(Checkpoint, Checkpoint, usize)>>,
    pub verbose: bool,
    pub depth_now: usize,
    pub seq: usize,
}

impl<'t> Lock<'t> {
    pub fn new(trace: &'t Trace, stats: &'t mut Stats) -> Self {
        Lock { trace, pc: 0, cur_op: 0, viols: Vec::new(), stats, blocks: Vec::new(), frames: vec![0], cps: vec![Vec::new()], verbose: std::env::var_os("SIM_VERBOSE").is_some(), depth_now: 0, seq: 0 }
    }
    pub fn viol(&mut self, class: &str, msg: String) {
        if self.viols.len() < 12 {
            sim::runner::early_violation(class, self.cur_op, &msg);
            self.viols.push(Violation { class: class.into(), op_index: self.cur_op, msg });
        }
    }
    fn next_op(&mut self) -> Option<Op> {
        if self.pc >= self.trace.ops.len() || !self.viols.is_empty() {
            return None;
        }
        self.cur_op = self.pc;
        self.pc += 1;
        self.stats.steps += 1;
        let op = self.trace.ops[self.cur_op].clone();
        self.stats.sig_mix(op.kind as u64);
        Some(op)
    }
}

pub trait Pod: Copy + Default + 'static {
    fn make(seed: u8, i: usize) -> Self;
}
macro_rules! pod {
    ($($t:ty),*) => {$( impl Pod for $t { fn make(seed: u8, i: usize) -> Self { let mut x = [0u8; std::mem::size_of::<$t>()]; for k in 0..x.len() { x[k] = (seed as usize * 29 + i * 7 + k * 3 + 1) as u8; } unsafe { std::mem::transmute(x) } } } )*};
}
pod!(u8, u16, u32, u64, u128, [u8; 3]);

pub enum Handle<'x, 'a, A: Allocator, S: BumpAllocatorSettings> {
    Root(&'x mut Bump<A, S>),
    Scope(&'x mut BumpScope<'a, A, S>),
}

/// The request "n elements of T with these values", carried by method `m` on carrier `bump`.
fn alloc_on<'a, B: BumpAllocatorTypedScope<'a> + ?Sized, T: Pod>(bump: &B, m: usize, n: usize, seed: u8) -> Result<(*mut u8, usize), ()> {
    let src: Vec<T> = (0..n).map(|i| T::make(seed, i)).collect();
    let layout = Layout::array::<T>(n).unwrap();
    let write = |p: *mut T| unsafe {
        for (i, x) in src.iter().enumerate() {
            p.add(i).write(*x);
        }
    };
    let m = fold_method(m, n);
    let sz = layout.size();
    match m {
        0 => bump.allocate(layout).map(|p| (p.as_ptr() as *mut u8, p.len())).map_err(drop).map(|r| {
            write(r.0.cast());
            r
        }),
        1 => bump.allocate_zeroed(layout).map(|p| (p.as_ptr() as *mut u8, p.len())).map_err(drop).map(|r| {
            write(r.0.cast());
            r
        }),
        2 => bump.try_allocate_layout(layout).map(|p| (p.as_ptr(), sz)).map_err(drop).map(|r| {
            write(r.0.cast());
            r
        }),
        3 => {
            let p = bump.allocate_layout(layout).as_ptr();
            write(p.cast());
            Ok((p, sz))
        }
        4 => bump.try_allocate_slice::<T>(n).map(|p| (p.as_ptr() as *mut u8, sz)).map_err(drop).map(|r| {
            write(r.0.cast());
            r
        }),
        5 => {
            let p = bump.allocate_slice::<T>(n).as_ptr();
            write(p);
            Ok((p.cast(), sz))
        }
        6 => {
            let p = bump.allocate_slice_for::<T>(&src).as_ptr();
            write(p);
            Ok((p.cast(), sz))
        }
        7 => bump.try_alloc_slice_copy(&src).map(|b| (b.into_raw().as_ptr() as *mut u8, sz)).map_err(drop),
        8 => Ok((bump.alloc_slice_copy(&src).into_raw().as_ptr() as *mut u8, sz)),
        9 => {
            let mut i = 0;
            Ok((
                bump.alloc_slice_fill_with(n, || {
                    i += 1;
                    T::make(seed, i - 1)
                })
                .into_raw()
                .as_ptr() as *mut u8,
                sz,
            ))
        }
        10 => Ok((bump.alloc_uninit_slice::<T>(n).init_copy(&src).into_raw().as_ptr() as *mut u8, sz)),
        11 => {
            let sl = bump.prepare_slice_allocation::<T>(n);
            let cap = sl.len();
            unsafe {
                let start = sl.as_ptr() as *mut T;
                write(start);
                let s = bump.allocate_prepared_slice(NonNull::new_unchecked(start), n, cap);
                Ok((s.as_ptr() as *mut u8, sz))
            }
        }
        12 => bump.try_alloc(T::make(seed, 0)).map(|b| (b.into_raw().as_ptr() as *mut u8, sz)).map_err(drop),
        13 => Ok((bump.alloc(T::make(seed, 0)).into_raw().as_ptr() as *mut u8, sz)),
        14 => Ok((bump.alloc_with(|| T::make(seed, 0)).into_raw().as_ptr() as *mut u8, sz)),
        15 => bump.try_allocate_sized::<T>().map(|p| (p.as_ptr() as *mut u8, sz)).map_err(drop).map(|r| {
            write(r.0.cast());
            r
        }),
        16 => {
            let p = bump.allocate_sized::<T>().as_ptr();
            write(p);
            Ok((p.cast(), sz))
        }
        17 => Ok((bump.alloc_uninit::<T>().init(T::make(seed, 0)).into_raw().as_ptr() as *mut u8, sz)),
        18 => {
            let p = bump.alloc_default::<T>().into_raw().as_ptr();
            write(p);
            Ok((p.cast(), sz))
        }
        19 => bump.try_alloc_slice_clone(&src).map(|b| (b.into_raw().as_ptr() as *mut u8, sz)).map_err(drop),
        20 => Ok((bump.alloc_slice_clone(&src).into_raw().as_ptr() as *mut u8, sz)),
        21 => Ok((bump.alloc_slice_move(src.clone()).into_raw().as_ptr() as *mut u8, sz)),
        22 => bump.try_alloc_slice_move(src.clone()).map(|b| (b.into_raw().as_ptr() as *mut u8, sz)).map_err(drop),
        _ => Ok((bump.alloc_uninit_slice_for::<T>(&src).init_copy(&src).into_raw().as_ptr() as *mut u8, sz)),
    }
}

macro_rules! on_carrier {
    ($h:expr, $c:expr, $lt:lifetime, |$b:ident| $e:expr) => {
        match $h {
            Handle::Scope(s) => match $c % N_SCOPE_CARRIERS {
                0 => { let $b = &**s; $e }
                1 => { let r: &BumpScope<$lt, A, S> = &**s; let $b = &r; $e }
                2 => { let r: &mut BumpScope<$lt, A, S> = &mut **s; let $b = &r; $e }
                3 => { let w = WithoutDealloc(&**s); let $b = &w; $e }
                4 => { let w = WithoutShrink(&**s); let $b = &w; $e }
                5 => { let $b: &dyn BumpAllocatorCoreScope<$lt> = &**s; $e }
                _ => { let d: &mut dyn MutBumpAllocatorCoreScope<$lt> = &mut **s; let $b = &*d; $e }
            },
            Handle::Root(bm) => match $c % 10 {
                0 => { let $b = bm.as_scope(); $e }
                1 => { let r = bm.as_scope(); let $b = &r; $e }
                2 => { let r = bm.as_mut_scope(); let $b = &r; $e }
                3 => { let w = WithoutDealloc(bm.as_scope()); let $b = &w; $e }
                4 => { let w = WithoutShrink(bm.as_scope()); let $b = &w; $e }
                5 => { let r = &**bm; let $b: &dyn BumpAllocatorCoreScope<'_> = &r; $e }
                6 => { let mut r = &mut **bm; let d: &mut dyn MutBumpAllocatorCoreScope<'_> = &mut r; let $b = &*d; $e }
                7 => { let r: &Bump<A, S> = &**bm; let $b = &r; $e }
                8 => { let r: &mut Bump<A, S> = &mut **bm; let $b = &r; $e }
                _ => { let w = WithoutDealloc(&**bm); let $b = &w; $e }
            },
        }
    };
}

fn alloc_side<'a, A, S>(h: &mut Handle<'_, 'a, A, S>, c: usize, m: usize, ty: u8, n: usize, seed: u8) -> Result<(*mut u8, usize), ()>
where
    A: BaseAllocator<S::GuaranteedAllocated>,
    S: BumpAllocatorSettings,
{
    macro_rules! t {
        ($b:ident) => {
            match ty % 6 {
                0 => alloc_on::<_, u8>($b, m, n, seed),
                1 => alloc_on::<_, u16>($b, m, n, seed),
                2 => alloc_on::<_, u32>($b, m, n, seed),
                3 => alloc_on::<_, u64>($b, m, n, seed),
                4 => alloc_on::<_, u128>($b, m, n, seed),
                _ => alloc_on::<_, [u8; 3]>($b, m, n, seed),
            }
        };
    }
    on_carrier!(h, c, 'a, |b| t!(b))
}

fn realloc_on<B: BumpAllocatorCore + ?Sized>(b: &B, kind: u16, zeroed: bool, blk: &Blk, new: Layout) -> Result<(*mut u8, usize), ()> {
    let old = Layout::from_size_align(blk.size, blk.align).unwrap();
    let p = unsafe { NonNull::new_unchecked(blk.ptr) };
    unsafe {
        match kind {
            K_GROW if zeroed => b.grow_zeroed(p, old, new).map(|p| (p.as_ptr() as *mut u8, p.len())).map_err(drop),
            K_GROW => b.grow(p, old, new).map(|p| (p.as_ptr() as *mut u8, p.len())).map_err(drop),
            K_SHRINK => b.shrink(p, old, new).map(|p| (p.as_ptr() as *mut u8, p.len())).map_err(drop),
            _ => {
                b.deallocate(p, old);
                Ok((std::ptr::null_mut(), 0))
            }
        }
    }
}

fn realloc_side<'a, A, S>(h: &mut Handle<'_, 'a, A, S>, c: usize, kind: u16, zeroed: bool, blk: &Blk, new: Layout) -> Result<(*mut u8, usize), ()>
where
    A: BaseAllocator<S::GuaranteedAllocated>,
    S: BumpAllocatorSettings,
{
    on_carrier!(h, c, 'a, |b| realloc_on(b, kind, zeroed, blk, new))
}

fn reserve_on<B: BumpAllocatorTyped + ?Sized>(b: &B, try_: bool, n: usize) -> Result<(), ()> {
    if try_ {
        b.try_reserve(n).map_err(drop)
    } else {
        b.reserve(n);
        Ok(())
    }
}

fn reserve_side<'a, A, S>(h: &mut Handle<'_, 'a, A, S>, c: usize, try_: bool, n: usize) -> Result<(), ()>
where
    A: BaseAllocator<S::GuaranteedAllocated>,
    S: BumpAllocatorSettings,
{
    on_carrier!(h, c, 'a, |b| reserve_on(b, try_, n))
}

fn prep_on<B: BumpAllocatorCore + ?Sized>(b: &B, rev: bool, l: Layout, commit: Layout, fillb: u8) -> Result<(*mut u8, usize), ()> {
    let r = if rev { b.prepare_allocation_rev(l) } else { b.prepare_allocation(l) }.map_err(drop)?;
    unsafe {
        let src = if rev { r.end.as_ptr().sub(commit.size()) } else { r.start.as_ptr() };
        std::ptr::write_bytes(src, fillb, commit.size());
        let p = if rev { b.allocate_prepared_rev(commit, r) } else { b.allocate_prepared(commit, r) };
        Ok((p.as_ptr(), commit.size()))
    }
}

fn prep_side<'a, A, S>(h: &mut Handle<'_, 'a, A, S>, c: usize, rev: bool, l: Layout, commit: Layout, fillb: u8) -> Result<(*mut u8, usize), ()>
where
    A: BaseAllocator<S::GuaranteedAllocated>,
    S: BumpAllocatorSettings,
{
    on_carrier!(h, c, 'a, |b| prep_on(b, rev, l, commit, fillb))
}

fn str_on<'a, B: BumpAllocatorTypedScope<'a> + ?Sized>(b: &B, m: usize, s: &str) -> Result<(*mut u8, usize), ()> {
    match m % 4 {
        0 => Ok((b.alloc_str(s).into_raw().as_ptr() as *mut u8, s.len())),
        1 => b.try_alloc_str(s).map(|x| (x.into_raw().as_ptr() as *mut u8, s.len())).map_err(drop),
        2 => Ok((b.alloc_slice_copy(s.as_bytes()).into_raw().as_ptr() as *mut u8, s.len())),
        _ => b.allocate(Layout::array::<u8>(s.len()).unwrap()).map_err(drop).map(|p| {
            unsafe { std::ptr::copy_nonoverlapping(s.as_ptr(), p.as_ptr() as *mut u8, s.len()) };
            (p.as_ptr() as *mut u8, s.len())
        }),
    }
}

fn str_side<'a, A, S>(h: &mut Handle<'_, 'a, A, S>, c: usize, m: usize, s: &str) -> Result<(*mut u8, usize), ()>
where
    A: BaseAllocator<S::GuaranteedAllocated>,
    S: BumpAllocatorSettings,
{
    on_carrier!(h, c, 'a, |b| str_on(b, m, s))
}


/// A zero-sized, over-aligned value type: typed requests for it never touch the allocator, whichever twin carries them.
#[derive(Clone, Copy, Default)]
#[repr(align(8))]
pub struct Z8;

fn zst_on<'a, B: BumpAllocatorTypedScope<'a> + ?Sized>(b: &B, m: usize, try_: bool, n: usize) -> Result<(), ()> {
    let src = vec![Z8; n];
    match m % 8 {
        0 => {
            if try_ { b.try_alloc(Z8).map(drop).map_err(drop) } else { Ok(drop(b.alloc(Z8))) }
        }
        1 => {
            if try_ { b.try_alloc_with(|| Z8).map(drop).map_err(drop) } else { Ok(drop(b.alloc_with(|| Z8))) }
        }
        2 => {
            if try_ { b.try_alloc_slice_copy(&src).map(drop).map_err(drop) } else { Ok(drop(b.alloc_slice_copy(&src))) }
        }
        3 => {
            if try_ { b.try_alloc_slice_fill(n, Z8).map(drop).map_err(drop) } else { Ok(drop(b.alloc_slice_fill(n, Z8))) }
        }
        4 => {
            if try_ { b.try_alloc_slice_fill_with(n, || Z8).map(drop).map_err(drop) } else { Ok(drop(b.alloc_slice_fill_with(n, || Z8))) }
        }
        5 => {
            if try_ { b.try_alloc_uninit_slice::<Z8>(n).map(drop).map_err(drop) } else { Ok(drop(b.alloc_uninit_slice::<Z8>(n))) }
        }
        6 => {
            if try_ { b.try_alloc_iter(src.iter().copied()).map(drop).map_err(drop) } else { Ok(drop(b.alloc_iter(src.iter().copied()))) }
        }
        _ => {
            if try_ { b.try_alloc_default::<Z8>().map(drop).map_err(drop) } else { Ok(drop(b.alloc_default::<Z8>())) }
        }
    }
}

fn zst_side<'a, A, S>(h: &mut Handle<'_, 'a, A, S>, c: usize, m: usize, try_: bool, n: usize) -> Result<(), ()>
where
    A: BaseAllocator<S::GuaranteedAllocated>,
    S: BumpAllocatorSettings,
{
    on_carrier!(h, c, 'a, |b| zst_on(b, m, try_, n))
}


/// `alloc_try_with` and its `_mut` / `try_` twins (inherent methods of `Bump` and `BumpScope`).
fn try_with_side<'a, A, S>(h: &mut Handle<'_, 'a, A, S>, m: usize, ty: u8, seed: u8, err: bool) -> Result<Option<(*mut u8, usize)>, ()>
where
    A: BaseAllocator<S::GuaranteedAllocated>,
    S: BumpAllocatorSettings,
{
    macro_rules! go {
        ($T:ty) => {{
            let f = || if err { Err(3u16) } else { Ok(<$T as Pod>::make(seed, 0)) };
            let r: Result<Result<bump_scope::BumpBox<'_, $T>, u16>, ()> = match h {
                Handle::Scope(s) => match m % 4 {
                    0 => Ok(s.alloc_try_with(f)),
                    1 => s.try_alloc_try_with(f).map_err(drop),
                    2 => Ok(s.alloc_try_with_mut(f)),
                    _ => s.try_alloc_try_with_mut(f).map_err(drop),
                },
                Handle::Root(b) => match m % 4 {
                    0 => Ok(b.alloc_try_with(f)),
                    1 => b.try_alloc_try_with(f).map_err(drop),
                    2 => Ok(b.alloc_try_with_mut(f)),
                    _ => b.try_alloc_try_with_mut(f).map_err(drop),
                },
            };
            r.map(|x| x.ok().map(|bx| (bx.into_raw().as_ptr() as *mut u8, std::mem::size_of::<$T>())))
        }};
    }
    match ty % 3 {
        0 => go!(u32),
        1 => go!(u64),
        _ => go!([u8; 3]),
    }
}

/// (allocated, count, position offset of the current chunk, remaining)
fn state_of<'a, A, S>(h: &Handle<'_, 'a, A, S>, heap_i: usize) -> (usize, usize, Option<usize>, usize)
where
    A: BaseAllocator<S::GuaranteedAllocated>,
    S: BumpAllocatorSettings,
{
    let st = match h {
        Handle::Root(b) => b.stats(),
        Handle::Scope(s) => s.stats(),
    };
    let pos = st.current_chunk().map(|c| heap::with(heap_i, |hp| hp.off(c.bump_position().as_ptr() as usize)));
    (st.allocated(), st.count(), pos, st.remaining())
}

fn off(heap_i: usize, p: *mut u8) -> usize {
    heap::with(heap_i, |h| h.off(p as usize))
}

fn carrier_name(root: bool, c: usize) -> &'static str {
    if root { ["BumpScope (as_scope)", "&BumpScope (as_scope)", "&mut BumpScope (as_mut_scope)", "WithoutDealloc<&BumpScope>", "WithoutShrink<&BumpScope>", "dyn BumpAllocatorCoreScope (&Bump)", "dyn MutBumpAllocatorCoreScope (&mut Bump)", "&Bump", "&mut Bump", "WithoutDealloc<&Bump>"][c % 10] } else { CARRIER_NAMES[c % N_SCOPE_CARRIERS] }
}

/// Executes ops on both arenas at the current nesting level.
fn level<'a, 'b, AL, AR, S>(it: &mut Lock<'_>, mut l: Handle<'_, 'a, AL, S>, mut r: Handle<'_, 'b, AR, S>, depth: usize)
where
    AL: BaseAllocator<S::GuaranteedAllocated>,
    AR: BaseAllocator<S::GuaranteedAllocated>,
    S: BumpAllocatorSettings,
{
    let root = matches!(l, Handle::Root(_));
    it.depth_now = depth;
    while let Some(op) = it.next_op() {
        let (cl, cr) = (op.a[0] as usize, op.a[1] as usize);
        if it.verbose {
            eprintln!("[{}] depth {depth} {} | left via {} right via {} | state {:?}", it.cur_op, sim::trace::op_text(&op, OP_NAMES), carrier_name(root, cl), carrier_name(root, cr), state_of(&l, 0));
        }
        let mut what = String::new();
        match op.kind {
            K_ALLOC | K_SLICE => {
                let n = if op.kind == K_ALLOC { 1 } else { op.a[2] as usize % 40 };
                let ty = (op.a[3] % 6) as u8;
                let seed = (op.a[3] / 8) as u8;
                let (ml, mr) = (op.a[4] as usize % N_METHODS, op.a[5] as usize % N_METHODS);
                // prepare + commit is a request of its own kind (it may place the block differently from a plain
                // allocation): it is only compared with itself through different carriers
                let norm = |m: usize| fold_method(m, n);
                let (ml, mr) = if norm(ml) == 11 || norm(mr) == 11 { (11, 11) } else { (ml, mr) };
                // `alloc_slice_move` builds its result through a `BumpVec` (an empty slice never touches the allocator,
                // unlike a zero-sized layout request): the panicking method is compared with its try_ twin only
                let (ml, mr) = if matches!(norm(ml), 21 | 22) || matches!(norm(mr), 21 | 22) { (21 + (ml & 1), 22 - (mr & 1)) } else { (ml, mr) };
                let a = alloc_side(&mut l, cl, ml, ty, n, seed);
                let b = alloc_side(&mut r, cr, mr, ty, n, seed);
                what = format!("{} x{n} of type #{ty}: {} on {} vs {} on {}", OP_NAMES[op.kind as usize], METHOD_NAMES[fold_method(ml, n)], carrier_name(root, cl), METHOD_NAMES[fold_method(mr, n)], carrier_name(root, cr));
                it.stats.bump(&format!("method.{}", METHOD_NAMES[fold_method(ml, n)]));
                let align = [1usize, 2, 4, 8, 16, 1][ty as usize % 6];
                compare_new(it, a, b, align, ty, n, &what);
            }
            K_STR => {
                let s: String = (0..op.a[2] as usize % 30).map(|i| (b'a' + ((op.a[3] as usize + i * 5) % 26) as u8) as char).collect();
                let a = str_side(&mut l, cl, op.a[4] as usize, &s);
                let b = str_side(&mut r, cr, op.a[5] as usize, &s);
                what = format!("string of {} bytes: method {} on {} vs method {} on {}", s.len(), op.a[4] % 4, carrier_name(root, cl), op.a[5] % 4, carrier_name(root, cr));
                compare_new(it, a, b, 1, 0, s.len(), &what);
            }
            K_ZST => {
                // the panicking method against its try_ twin, same carrier, for a zero-sized over-aligned value type
                let n = op.a[2] as usize % 6;
                let m = op.a[4] as usize;
                let a = zst_side(&mut l, cl, m, false, n);
                let b = zst_side(&mut r, cl, m, true, n);
                let names = ["alloc", "alloc_with", "alloc_slice_copy", "alloc_slice_fill", "alloc_slice_fill_with", "alloc_uninit_slice", "alloc_iter", "alloc_default"];
                what = format!("{} vs try_{} of {n} zero-sized (align 8) values on {}", names[m % 8], names[m % 8], carrier_name(root, cl));
                it.stats.probe("lock.zst_twins");
                if a.is_ok() != b.is_ok() {
                    it.viol("C17/outcome-differs", format!("{what}: the two entry points disagree about the outcome"));
                }
            }
            K_TRY_WITH => {
                let ty = (op.a[2] % 3) as u8;
                let seed = (op.a[3] % 251) as u8;
                let err = op.a[3] & 256 != 0;
                let a = try_with_side(&mut l, op.a[4] as usize, ty, seed, err);
                let b = try_with_side(&mut r, op.a[5] as usize, ty, seed, err);
                let names = ["alloc_try_with", "try_alloc_try_with", "alloc_try_with_mut", "try_alloc_try_with_mut"];
                what = format!("{} vs {} (closure returns {})", names[op.a[4] as usize % 4], names[op.a[5] as usize % 4], if err { "Err" } else { "Ok" });
                it.stats.probe(if err { "lock.try_with_err" } else { "lock.try_with_ok" });
                let align = [4usize, 8, 1][ty as usize];
                match (a, b) {
                    (Ok(Some(x)), Ok(Some(y))) => compare_new(it, Ok(x), Ok(y), align, 0, 1, &what),
                    (Ok(None), Ok(None)) | (Err(()), Err(())) => {}
                    _ => it.viol("C17/outcome-differs", format!("{what}: the two entry points disagree about the outcome")),
                }
            }
            K_GROW | K_SHRINK | K_DEALLOC => {
                if it.blocks.is_empty() {
                    continue;
                }
                let k = op.a[2] as usize % it.blocks.len();
                let (bl, br) = it.blocks[k];
                // wrappers only for the requests they forward unchanged
                let ok_carrier = |c: usize, kind: u16| -> usize {
                    let cc = if root { c % 10 } else { c % N_SCOPE_CARRIERS };
                    let wd = cc == 3 || (root && cc == 9);
                    let ws = cc == 4;
                    if (kind == K_DEALLOC && wd) || (kind == K_SHRINK && ws) { 0 } else { c }
                };
                let (cl, cr) = (ok_carrier(cl, op.kind), ok_carrier(cr, op.kind));
                let new_size = match op.kind {
                    K_GROW => bl.size + op.a[3] as usize % 300,
                    K_SHRINK => bl.size * (op.a[3] as usize % 101) / 100,
                    _ => bl.size,
                };
                let new_align = if op.a[4] % 4 == 0 { 1usize << (op.a[4] / 4 % 6) } else { bl.align };
                let new = Layout::from_size_align(new_size, new_align).unwrap();
                // grow and grow_zeroed are both entry points of every carrier (the `&mut` carriers have their own
                // forwarding impl of each)
                let zeroed = op.kind == K_GROW && op.a[5] & 1 == 1;
                let a = realloc_side(&mut l, cl, op.kind, zeroed, &bl, new);
                let b = realloc_side(&mut r, cr, op.kind, zeroed, &br, new);
                what = format!("{}{} of block #{k} ({} -> {new_size} bytes, align {} -> {new_align}) via {} vs {}", OP_NAMES[op.kind as usize], if zeroed { "_zeroed" } else { "" }, bl.size, bl.align, carrier_name(root, cl), carrier_name(root, cr));
                match (a, b) {
                    (Ok(x), Ok(y)) => {
                        it.blocks.remove(k);
                        if op.kind != K_DEALLOC {
                            let (ox, oy) = (off(0, x.0), off(1, y.0));
                            if ox != oy || x.1 != y.1 {
                                it.viol("C17/offset-differs", format!("{what}: block at offset {ox:#x} (+{}) vs {oy:#x} (+{})", x.1, y.1));
                            }
                            let n = new_size.min(x.1).min(y.1).min(bl.size);
                            if unsafe { std::slice::from_raw_parts(x.0, n) != std::slice::from_raw_parts(y.0, n) } {
                                it.viol("C17/contents-differ", format!("{what}: surviving contents differ"));
                            }
                            if zeroed {
                                let tail = |p: *mut u8, len: usize| (bl.size.min(len)..new_size.min(len)).all(|i| unsafe { *p.add(i) } == 0);
                                if !tail(x.0, x.1) || !tail(y.0, y.1) {
                                    it.viol("C17/contents-differ", format!("{what}: the new tail of a zeroed grow is not zero on one side"));
                                }
                            }
                            // bytes beyond the old size are uninitialised: give them a defined value on both sides
                            for i in bl.size.min(x.1)..x.1.min(y.1) {
                                unsafe {
                                    x.0.add(i).write((i * 5 + 3) as u8);
                                    y.0.add(i).write((i * 5 + 3) as u8);
                                }
                            }
                            it.seq += 1;
                            let (d, sq) = (it.depth_now, it.seq);
                            it.blocks.push((Blk { ptr: x.0, len: x.1, size: new_size, align: new_align, depth: d, seq: sq, ..bl }, Blk { ptr: y.0, len: y.1, size: new_size, align: new_align, depth: d, seq: sq, ..br }));
                        }
                    }
                    (Err(()), Err(())) => {}
                    _ => it.viol("C17/outcome-differs", format!("{what}: one side succeeded, the other failed")),
                }
            }
            K_RESERVE => {
                // the trait-object interface implements `reserve` on top of `prepare_allocation`, which is only
                // specified by its postcondition: dyn carriers are left out of the strict comparison
                let nodyn = |c: usize| {
                    let cc = if root { c % 10 } else { c % N_SCOPE_CARRIERS };
                    if cc == 5 || cc == 6 { 0 } else { c }
                };
                let n = op.a[2] as usize % 3000;
                let a = reserve_side(&mut l, nodyn(cl), op.a[4] & 1 == 1, n);
                let b = reserve_side(&mut r, nodyn(cr), op.a[5] & 1 == 1, n);
                what = format!("reserve({n}) via {} vs {}", carrier_name(root, nodyn(cl)), carrier_name(root, nodyn(cr)));
                if a.is_ok() != b.is_ok() {
                    it.viol("C17/outcome-differs", format!("{what}: one side succeeded, the other failed"));
                }
                if a.is_ok() && state_of(&l, 0).3 < n {
                    it.viol("C17/reserve-postcondition", format!("{what}: remaining() is {} afterwards", state_of(&l, 0).3));
                }
            }
            K_PREP => {
                let align = 1usize << (op.a[2] % 5);
                let units = 1 + op.a[3] as usize % 24;
                let lay = Layout::from_size_align(units * align, align).unwrap();
                let commit = Layout::from_size_align((op.a[4] as usize % (units + 1)) * align, align).unwrap();
                let rev = op.a[5] & 1 == 1;
                let fb = (op.a[3] % 250) as u8 + 1;
                let a = prep_side(&mut l, cl, rev, lay, commit, fb);
                let b = prep_side(&mut r, cr, rev, lay, commit, fb);
                what = format!("prepare_allocation{}({} bytes, align {align}) + commit {} via {} vs {}", if rev { "_rev" } else { "" }, lay.size(), commit.size(), carrier_name(root, cl), carrier_name(root, cr));
                compare_new(it, a, b, align, 0, commit.size(), &what);
                if let Some(last) = it.blocks.last_mut() {
                    last.0.align = align;
                    last.1.align = align;
                }
            }
            K_CHECKPOINT => {
                let (a, b) = match (&l, &r) {
                    (Handle::Root(x), Handle::Root(y)) => (x.checkpoint(), y.checkpoint()),
                    (Handle::Scope(x), Handle::Scope(y)) => (x.checkpoint(), y.checkpoint()),
                    _ => harness_bug("mixed handles".into()),
                };
                let n = it.seq;
                if it.cps.last().unwrap().len() < 6 {
                    it.cps.last_mut().unwrap().push((a, b, n));
                }
            }
            K_RESET_TO => {
                let cps = it.cps.last().unwrap();
                if cps.is_empty() {
                    continue;
                }
                let k = op.a[2] as usize % cps.len();
                let (a, b, n) = cps[k];
                unsafe {
                    match (&l, &r) {
                        (Handle::Root(x), Handle::Root(y)) => {
                            x.reset_to(a);
                            y.reset_to(b)
                        }
                        (Handle::Scope(x), Handle::Scope(y)) => {
                            x.reset_to(a);
                            y.reset_to(b)
                        }
                        _ => harness_bug("mixed handles".into()),
                    }
                }
                it.blocks.retain(|b| b.0.seq <= n);
                it.cps.last_mut().unwrap().truncate(k + 1);
                what = "reset_to".into();
            }
            K_ENTER => {
                if depth >= 5 {
                    continue;
                }
                it.frames.push(it.blocks.len());
                it.cps.push(Vec::new());
                it.stats.probe("lock.scope_entered");
                // Bump vs BumpScope: at the root the scope guards come from the Bumps themselves
                match (&mut l, &mut r) {
                    (Handle::Root(x), Handle::Root(y)) => {
                        let mut gl = x.scope_guard();
                        let mut gr = y.scope_guard();
                        level(it, Handle::Scope(gl.scope()), Handle::Scope(gr.scope()), depth + 1);
                    }
                    (Handle::Scope(x), Handle::Scope(y)) => {
                        let mut gl = x.scope_guard();
                        let mut gr = y.scope_guard();
                        level(it, Handle::Scope(gl.scope()), Handle::Scope(gr.scope()), depth + 1);
                    }
                    _ => harness_bug("mixed handles".into()),
                }
                it.frames.pop();
                it.cps.pop();
                it.depth_now = depth;
                // blocks of the inner scope are gone; blocks reallocated inside it belong to it as well
                it.blocks.retain(|b| b.0.depth <= depth);
                what = "scope exit".into();
            }
            K_EXIT => {
                if depth > 0 {
                    return;
                }
                continue;
            }
            _ => continue,
        }
        let (sl, sr) = (state_of(&l, 0), state_of(&r, 1));
        if sl != sr {
            it.viol("C17/state-differs", format!("after {what}: (allocated, chunks, position, remaining) {:?} vs {:?}", sl, sr));
        }
        it.stats.state(sim::rng::mix(sl.0 as u64 / 16, sim::rng::mix(sl.1 as u64, it.blocks.len() as u64)));
    }
}

fn compare_new(it: &mut Lock<'_>, a: Result<(*mut u8, usize), ()>, b: Result<(*mut u8, usize), ()>, align: usize, ty: u8, n: usize, what: &str) {
    match (a, b) {
        (Ok(x), Ok(y)) => {
            let (ox, oy) = (off(0, x.0), off(1, y.0));
            let zst_like = x.1 == 0 && y.1 == 0;
            if !zst_like && ox != oy {
                it.viol("C17/offset-differs", format!("{what}: block at offset {ox:#x} vs {oy:#x}"));
            }
            if x.1 != y.1 {
                it.viol("C17/length-differs", format!("{what}: {} vs {} bytes", x.1, y.1));
            } else if !zst_like && unsafe { std::slice::from_raw_parts(x.0, x.1) != std::slice::from_raw_parts(y.0, y.1) } {
                it.viol("C17/contents-differ", format!("{what}: the stored values differ"));
            }
            if !zst_like {
                it.seq += 1;
                let (depth, seq) = (it.depth_now, it.seq);
                it.blocks.push((Blk { ptr: x.0, len: x.1, size: x.1, align, ty, n, depth, seq }, Blk { ptr: y.0, len: y.1, size: y.1, align, ty, n, depth, seq }));
            }
            it.stats.probe("lock.pair_compared");
        }
        (Err(()), Err(())) => {}
        _ => it.viol("C17/outcome-differs", format!("{what}: one entry point succeeded, the other failed")),
    }
}

pub fn run<AL, AR, S>(it: &mut Lock<'_>)
where
    AL: BaseAllocator<S::GuaranteedAllocated> + Default,
    AR: BaseAllocator<S::GuaranteedAllocated> + Default,
    S: BumpAllocatorSettings,
{
    let init = it.trace.param_or("init", 0);
    let (mut bl, mut br): (Bump<AL, S>, Bump<AR, S>) = match init % 3 {
        0 => (Bump::default(), Bump::default()),
        1 => (Bump::new_in(AL::default()), Bump::new_in(AR::default())),
        _ => (Bump::with_size_in(2000, AL::default()), Bump::with_size_in(2000, AR::default())),
    };
    level(it, Handle::Root(&mut bl), Handle::Root(&mut br), 0);
    drop(bl);
    drop(br);
    for i in 0..2 {
        heap::with(i, |h| h.final_check(true));
        let errs: Vec<(&'static str, String)> = heap::with(i, |h| std::mem::take(&mut h.errors));
        for (c, m) in errs {
            it.viol(&c.replace("C05/", "C17/heap-"), format!("heap {i}: {m}"));
        }
    }
    let calls = (heap::with(0, |h| h.n_alloc), heap::with(1, |h| h.n_alloc));
    if calls.0 != calls.1 {
        it.viol("C17/base-calls-differ", format!("the two arenas made {} vs {} base-allocator calls", calls.0, calls.1));
    }
    it.stats.run_nontrivial = true;
}

#[allow(unused)]
fn _b<B: BumpAllocator>() {}
