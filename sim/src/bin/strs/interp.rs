//! String world: the four bump string types against `std::string::String`.

use std::fmt;
use std::ops::Bound;
use std::panic::{AssertUnwindSafe, catch_unwind};

use sim::heap;
use sim::rng::Rng;
use sim::runner::{Caught, Stats, classify_panic, harness_bug, inject_panic};
use sim::trace::{Op, Trace, Violation};

use crate::api::*;

pub const OP_NAMES: &[&str] = &[
    "push", "push_str", "insert", "insert_str", "remove", "pop", "truncate", "clear", "retain", "drain", "replace_range", "ext_within", "ext_zeroed",
    "reserve", "write_fmt", "split_off", "new", "finish", "helper", "shrink", "convert", "drop",
];
pub const K_PUSH: u16 = 0;
pub const K_PUSH_STR: u16 = 1;
pub const K_INSERT: u16 = 2;
pub const K_INSERT_STR: u16 = 3;
pub const K_REMOVE: u16 = 4;
pub const K_POP: u16 = 5;
pub const K_TRUNCATE: u16 = 6;
pub const K_CLEAR: u16 = 7;
pub const K_RETAIN: u16 = 8;
pub const K_DRAIN: u16 = 9;
pub const K_REPLACE_RANGE: u16 = 10;
pub const K_EXT_WITHIN: u16 = 11;
pub const K_EXT_ZEROED: u16 = 12;
pub const K_RESERVE: u16 = 13;
pub const K_WRITE_FMT: u16 = 14;
pub const K_SPLIT_OFF: u16 = 15;
pub const K_NEW: u16 = 16;
pub const K_FINISH: u16 = 17;
pub const K_HELPER: u16 = 18;
pub const K_SHRINK: u16 = 19;
pub const K_CONVERT: u16 = 20;
pub const K_DROP: u16 = 21;
pub const LAST_COMMON: u16 = K_WRITE_FMT;

// 1-4 byte characters, NUL, a combining mark, and the first/last code point of every UTF-8 encoded length
const POOL: &[char] = &[
    'a', 'Z', '0', ' ', '\0', 'é', 'ß', '€', '한', '\u{0301}', '😀', '𝄞', 'x', '\n', 'ü', '中', '\u{7f}', '\u{80}', '\u{7ff}', '\u{800}', '\u{ffff}', '\u{10000}', '\u{10ffff}',
    '\u{d7ff}', '\u{e000}',
];

pub fn text(seed: u64, n: usize) -> String {
    let mut r = Rng::new(seed);
    (0..n).map(|_| *r.pick(POOL)).collect()
}

pub fn raw_bytes(seed: u64, n: usize) -> Vec<u8> {
    let mut r = Rng::new(seed ^ 0xb7);
    let mut v = Vec::new();
    while v.len() < n {
        match r.below(6) {
            0 => v.push(r.below(256) as u8),
            1 => v.push(0x80 | r.below(64) as u8),
            2 => {
                // truncated multi-byte sequence
                let mut b = [0u8; 4];
                let s = r.pick(POOL).encode_utf8(&mut b);
                let k = s.len().saturating_sub(1).max(1);
                v.extend_from_slice(&s.as_bytes()[..k]);
            }
            _ => {
                let mut b = [0u8; 4];
                v.extend_from_slice(r.pick(POOL).encode_utf8(&mut b).as_bytes());
            }
        }
    }
    v
}

pub fn raw_utf16(seed: u64, n: usize) -> Vec<u16> {
    let mut r = Rng::new(seed ^ 0x16);
    let mut v = Vec::new();
    while v.len() < n {
        match r.below(6) {
            0 => v.push(0xD800 + r.below(0x400) as u16),
            1 => v.push(0xDC00 + r.below(0x400) as u16),
            _ => {
                let mut b = [0u16; 2];
                v.extend_from_slice(r.pick(POOL).encode_utf16(&mut b));
            }
        }
    }
    v
}

/// A `Display` impl that writes its parts one by one and may fail or unwind in the middle.
pub struct Piece {
    pub parts: Vec<String>,
    pub err_at: Option<usize>,
    pub panic_at: Option<usize>,
}

impl fmt::Display for Piece {
    fn fmt(&self, f: &mut fmt::Formatter<'_>) -> fmt::Result {
        for (i, p) in self.parts.iter().enumerate() {
            if self.err_at == Some(i) {
                return Err(fmt::Error);
            }
            if self.panic_at == Some(i) {
                inject_panic(i as u32 + 1);
            }
            f.write_str(p)?;
        }
        Ok(())
    }
}

pub fn piece(op: &Op, seed: u64) -> Piece {
    let n = 1 + (seed % 4) as usize;
    let parts = (0..n).map(|i| text(seed.wrapping_add(i as u64 * 77), (seed >> (8 + i * 3)) as usize % 7)).collect();
    let (mut err_at, mut panic_at) = (None, None);
    if op.panic_at != 0 {
        let k = (op.panic_at as usize - 1) % (n + 1);
        if op.a[5] & 1 == 1 {
            err_at = Some(k);
        } else {
            panic_at = Some(k);
        }
    }
    Piece { parts, err_at, panic_at }
}

pub struct Ctx<'t> {
    pub trace: &'t Trace,
    pub pc: usize,
    pub cur_op: usize,
    pub viols: Vec<Violation>,
    pub stats: &'t mut Stats,
    pub faulty: bool,
    pub verbose: bool,
    pub retain_calls: u32,
    pub retain_panic_at: u32,
    /// the run is judged for C15 (positions while exclusive-borrow strings are filled, dropped, finalised)
    pub c15: bool,
    /// a string holds invalid UTF-8: using it any further is undefined behaviour, the run ends here
    pub stop: bool,
}

pub enum Outcome<T> {
    Ok(T),
    AllocFailed,
    Injected,
    LibPanic(String),
}

impl<'t> Ctx<'t> {
    pub fn new(trace: &'t Trace, stats: &'t mut Stats) -> Self {
        Ctx {
            trace,
            pc: 0,
            cur_op: 0,
            viols: Vec::new(),
            stats,
            faulty: trace.param_or("fail_above", 0) != 0,
            verbose: std::env::var_os("SIM_VERBOSE").is_some(),
            retain_calls: 0,
            retain_panic_at: 0,
            c15: trace.prop == "C15",
            stop: false,
        }
    }
    pub fn viol(&mut self, class: &str, msg: String) {
        if self.viols.len() < 16 {
            sim::runner::early_violation(class, self.cur_op, &msg);
            self.viols.push(Violation { class: class.to_string(), op_index: self.cur_op, msg });
        }
    }
    pub fn next_op(&mut self) -> Option<Op> {
        if self.pc >= self.trace.ops.len() || self.stop {
            return None;
        }
        self.cur_op = self.pc;
        self.pc += 1;
        self.stats.steps += 1;
        let op = self.trace.ops[self.cur_op].clone();
        self.stats.sig_mix(op.kind as u64);
        Some(op)
    }
    pub fn panicking_ok(&self, op: &Op) -> bool {
        !self.faulty && op.fail_nth == 0 && op.burst == 0
    }
    pub fn call<T>(&mut self, op: &Op, f: impl FnOnce() -> Result<T, ()>) -> Outcome<T> {
        heap::with(0, |h| h.begin_op(self.cur_op as u32 + 1, if op.fail_nth != 0 { Some(op.fail_nth) } else { None }, op.burst));
        let r = catch_unwind(AssertUnwindSafe(f));
        heap::with(0, |h| h.end_op());
        match r {
            Ok(Ok(v)) => Outcome::Ok(v),
            Ok(Err(())) => Outcome::AllocFailed,
            Err(p) => match classify_panic(p) {
                Caught::Injected(_) => {
                    self.stats.probe("fault.callback_panic");
                    Outcome::Injected
                }
                Caught::Harness(m) => harness_bug(m),
                Caught::Library(m) => Outcome::LibPanic(m),
            },
        }
    }
    pub fn refusals_in_op(&self) -> usize {
        let op = self.cur_op as u32 + 1;
        heap::with(0, |h| h.refusals.iter().filter(|r| r.op == op).count())
    }
    pub fn drain_heap_errors(&mut self) {
        let herrs: Vec<(&'static str, String)> = heap::with(0, |h| std::mem::take(&mut h.errors));
        for (c, m) in herrs {
            let c = c.replace("C05/", "C09/heap-");
            self.viol(&c, m);
        }
    }
}

/// Byte index argument: every index up to len + 1, or huge.
pub fn idx_arg(x: u64, len: usize) -> usize {
    match x % 16 {
        0 => 0,
        1 => len,
        2 => len + 1,
        3 => usize::MAX,
        _ => (x / 16) as usize % (len + 2),
    }
}

pub fn range_arg(a: u64, b: u64, len: usize) -> R {
    let s = idx_arg(a, len);
    let e = idx_arg(b, len);
    match (a / 4096 + b / 4096) % 6 {
        0 => (Bound::Included(s), Bound::Excluded(e)),
        1 => (Bound::Unbounded, Bound::Excluded(e)),
        2 => (Bound::Included(s), Bound::Unbounded),
        3 => (Bound::Unbounded, Bound::Unbounded),
        4 => (Bound::Included(s), Bound::Included(e)),
        _ => (Bound::Excluded(s), Bound::Excluded(e)),
    }
}

/// Concrete range if it is valid for a string (in bounds, ordered, on char boundaries).
pub fn valid_range(r: R, s: &str) -> Option<(usize, usize)> {
    let len = s.len();
    let start = match r.0 {
        Bound::Included(x) => x,
        Bound::Excluded(x) => x.checked_add(1)?,
        Bound::Unbounded => 0,
    };
    let end = match r.1 {
        Bound::Included(x) => x.checked_add(1)?,
        Bound::Excluded(x) => x,
        Bound::Unbounded => len,
    };
    if start <= end && end <= len && s.is_char_boundary(start) && s.is_char_boundary(end) { Some((start, end)) } else { None }
}

pub fn check_utf8<V: StrApi>(ctx: &mut Ctx, v: &V, what: &str) {
    if let Err(e) = std::str::from_utf8(v.bytes()) {
        ctx.viol("C09/invalid-utf8", format!("{what}: the string holds invalid UTF-8 ({e}); bytes {:?}", &v.bytes()[..v.bytes().len().min(24)]));
        ctx.stop = true;
    }
}

fn quiet<T>(f: impl FnOnce() -> T) -> Result<T, ()> {
    let r = catch_unwind(AssertUnwindSafe(f)).map_err(drop);
    sim::runner::take_last_panic();
    r
}

/// Executes one of the operations all growable kinds share, in lock-step with `std::String`.
#[inline]
pub fn exec_common<V: StrApi>(ctx: &mut Ctx, v: &mut V, m: &mut String, op: &Op) {
    let k = op.kind;
    let grows = matches!(k, K_PUSH | K_PUSH_STR | K_INSERT | K_INSERT_STR | K_REPLACE_RANGE | K_EXT_WITHIN | K_EXT_ZEROED | K_RESERVE | K_WRITE_FMT);
    if grows && !V::GROWS {
        return;
    }
    if m.len() > 200 && grows {
        return;
    }
    let name = OP_NAMES[k as usize];
    ctx.stats.bump(&format!("op.{name}"));
    let len = m.len();
    let try_ = !ctx.panicking_ok(op) || op.a[4] & 1 == 1;
    let before = m.clone();
    let mut expect = m.clone();
    // what std does: Ok(return value as string) or Err (panicked)
    let std_result: Result<String, ()>;
    let out: Outcome<String> = match k {
        K_PUSH => {
            let c = POOL[op.a[0] as usize % POOL.len()];
            std_result = quiet(|| {
                expect.push(c);
                String::new()
            });
            ctx.call(op, || v.s_push(c, try_).map(|_| String::new()))
        }
        K_PUSH_STR => {
            let s = text(op.a[0], op.a[1] as usize % 12);
            std_result = quiet(|| {
                expect.push_str(&s);
                String::new()
            });
            ctx.call(op, || v.s_push_str(&s, try_).map(|_| String::new()))
        }
        K_INSERT => {
            let i = idx_arg(op.a[0], len);
            let c = POOL[op.a[1] as usize % POOL.len()];
            std_result = quiet(|| {
                expect.insert(i, c);
                String::new()
            });
            ctx.call(op, || v.s_insert(i, c, try_).map(|_| String::new()))
        }
        K_INSERT_STR => {
            let i = idx_arg(op.a[0], len);
            let s = text(op.a[1], op.a[2] as usize % 10);
            std_result = quiet(|| {
                expect.insert_str(i, &s);
                String::new()
            });
            ctx.call(op, || v.s_insert_str(i, &s, try_).map(|_| String::new()))
        }
        K_REMOVE => {
            let i = idx_arg(op.a[0], len);
            std_result = quiet(|| expect.remove(i).to_string());
            ctx.call(op, || Ok(v.s_remove(i).to_string()))
        }
        K_POP => {
            std_result = quiet(|| expect.pop().map_or(String::new(), |c| c.to_string()));
            ctx.call(op, || Ok(v.s_pop().map_or(String::new(), |c| c.to_string())))
        }
        K_TRUNCATE => {
            let n = idx_arg(op.a[0], len);
            std_result = quiet(|| {
                expect.truncate(n);
                String::new()
            });
            ctx.call(op, || Ok({
                v.s_truncate(n);
                String::new()
            }))
        }
        K_CLEAR => {
            expect.clear();
            std_result = Ok(String::new());
            ctx.call(op, || Ok({
                v.s_clear();
                String::new()
            }))
        }
        K_RETAIN => {
            let pat = op.a[0];
            let keep = |i: u32, c: char| (pat >> (i % 16)) & 1 == 1 || (pat & 0x10000 != 0 && c.is_ascii());
            let mut i = 0;
            expect.retain(|c| {
                i += 1;
                keep(i - 1, c)
            });
            std_result = Ok(String::new());
            let panic_at = op.panic_at;
            let mut j = 0u32;
            ctx.call(op, || {
                v.s_retain(&mut |c| {
                    j += 1;
                    if panic_at != 0 && j == panic_at {
                        inject_panic(j);
                    }
                    keep(j - 1, c)
                });
                Ok(String::new())
            })
        }
        K_DRAIN => {
            let r = range_arg(op.a[0], op.a[1], len);
            let (f, b) = (op.a[2] as usize % 4, op.a[3] as usize % 3);
            std_result = quiet(|| {
                let mut d = expect.drain(r);
                let mut o = String::new();
                for _ in 0..f {
                    match d.next() {
                        Some(c) => o.push(c),
                        None => break,
                    }
                }
                for _ in 0..b {
                    match d.next_back() {
                        Some(c) => o.push(c),
                        None => break,
                    }
                }
                drop(d);
                o
            });
            ctx.call(op, || Ok(v.s_drain(r, f, b, false)))
        }
        K_REPLACE_RANGE => {
            let r = range_arg(op.a[0], op.a[1], len);
            let s = text(op.a[2], op.a[3] as usize % 10);
            std_result = quiet(|| {
                expect.replace_range(r, &s);
                String::new()
            });
            ctx.call(op, || v.s_replace_range(r, &s, try_).map(|_| String::new()))
        }
        K_EXT_WITHIN => {
            let r = range_arg(op.a[0], op.a[1], len);
            std_result = quiet(|| {
                expect.extend_from_within(r);
                String::new()
            });
            ctx.call(op, || v.s_extend_from_within(r, try_).map(|_| String::new()))
        }
        K_EXT_ZEROED => {
            let n = op.a[0] as usize % 9;
            for _ in 0..n {
                expect.push('\0');
            }
            std_result = Ok(String::new());
            ctx.call(op, || v.s_extend_zeroed(n, try_).map(|_| String::new()))
        }
        K_RESERVE => {
            let n = match op.a[0] % 6 {
                0 => usize::MAX,
                1 => isize::MAX as usize,
                _ => op.a[0] as usize / 6 % 100,
            };
            std_result = Ok(String::new());
            let try_ = try_ || n > 1000;
            let r = ctx.call(op, || v.s_reserve(n, try_).map(|_| String::new()));
            if let Outcome::Ok(_) = &r {
                if len.checked_add(n).is_none_or(|t| v.cap() < t) {
                    ctx.viol("C09/reserve-capacity", format!("after reserve({n}) with len {len} the capacity is {}", v.cap()));
                }
            }
            r
        }
        _ => {
            // write_fmt with a scripted Display
            let p = piece(op, op.a[0]);
            let p2 = Piece { parts: p.parts.clone(), err_at: p.err_at, panic_at: None };
            let std_err = fmt::Write::write_fmt(&mut expect, format_args!("<{}>", p2)).is_err();
            std_result = Ok(String::new());
            if !ctx.panicking_ok(op) {
                // fmt::Write on the panicking wrapper only; with refusals possible use nothing here
                return;
            }
            match ctx.call(op, || Ok(v.s_write_fmt(format_args!("<{}>", p)).is_err())) {
                Outcome::Ok(e) => {
                    if V::KIND == SKind::Fixed && expect.len() > v.cap() {
                        // a full fixed string reports an error from `write_str` and keeps what fitted
                        if !e {
                            ctx.viol("C09/fixed-grew", "write! into a full fixed string returned Ok".into());
                        }
                        if !expect.starts_with(v.s()) && !std_err {
                            ctx.viol("C09/contents-mismatch", format!("write! into a full fixed string left {:?}, not a prefix of {:?}", v.s(), expect));
                        }
                        *m = v.s().to_string();
                        check_utf8(ctx, v, "write_fmt on a full FixedBumpString");
                        return;
                    }
                    if e != std_err {
                        ctx.viol("C09/fmt-result", format!("write! returned is_err()={e}, String returned {std_err}"));
                    }
                    if std_err {
                        ctx.stats.probe("fmt.display_error");
                    }
                    Outcome::Ok(String::new())
                }
                Outcome::AllocFailed => Outcome::AllocFailed,
                Outcome::Injected => Outcome::Injected,
                Outcome::LibPanic(s) => Outcome::LibPanic(s),
            }
        }
    };
    ctx.drain_heap_errors();
    let what = format!("{} on {}", name, KIND_NAMES[V::KIND as usize]);
    check_utf8(ctx, v, &what);
    if ctx.stop {
        return;
    }
    let fixed_full = V::KIND == SKind::Fixed && std_result.is_ok() && expect.len() > v.cap();
    match out {
        Outcome::Ok(ret) => match std_result {
            Ok(sret) => {
                if fixed_full && k != K_WRITE_FMT {
                    ctx.viol("C09/fixed-grew", format!("{what}: a fixed string of capacity {} now should hold {} bytes", v.cap(), expect.len()));
                }
                *m = expect;
                if v.s() != m.as_str() {
                    ctx.viol("C09/contents-mismatch", format!("{what}: got {:?}, String gives {:?}", v.s(), m));
                    *m = v.s().to_string();
                } else if ret != sret {
                    ctx.viol("C09/return-value", format!("{what}: returned {ret:?}, String returned {sret:?}"));
                }
            }
            Err(()) => {
                ctx.viol("C09/panic-mismatch", format!("{what}: String panics for these arguments (len {len}, text {:?}), this call returned", before));
                *m = v.s().to_string();
            }
        },
        Outcome::AllocFailed => {
            if ctx.refusals_in_op() > 0 {
                ctx.stats.probe("fault.op_failed_cleanly");
            } else if fixed_full || (k == K_RESERVE && op.a[0] % 6 < 2) || (V::KIND == SKind::Fixed && k == K_RESERVE) {
                ctx.stats.probe("fail.fixed_full_or_overflow");
            } else if std_result.is_err() {
                ctx.viol("C09/panic-mismatch", format!("{what}: invalid arguments produced an allocation error instead of a panic"));
            } else {
                ctx.stats.bump("fail.without_refusal");
            }
            if v.s() != before && k != K_WRITE_FMT {
                ctx.viol("C09/changed-on-failure", format!("{what} failed but the string changed from {:?} to {:?}", before, v.s()));
            }
            *m = v.s().to_string();
        }
        Outcome::Injected => {
            ctx.stats.probe("unwind.injected");
            *m = v.s().to_string();
        }
        Outcome::LibPanic(msg) => {
            let expected = std_result.is_err() || fixed_full || (V::KIND == SKind::Fixed && k == K_RESERVE && msg.contains("does not have space")) || msg.contains("capacity overflow") || (k == K_WRITE_FMT && msg.contains("formatting trait"));
            if !expected {
                ctx.viol("C09/panic-mismatch", format!("{what}: panicked ({msg}) where String does not (len {len}, text {:?})", before));
            } else {
                ctx.stats.probe("panic.expected_library_panic");
                if v.s() != before && k != K_WRITE_FMT {
                    ctx.viol("C09/changed-by-rejected-call", format!("{what} panicked ({msg}) but the string changed"));
                }
            }
            *m = v.s().to_string();
        }
    }
    ctx.stats.state(sim::rng::mix(V::KIND as u64 * 64 + k as u64, sim::rng::mix(m.len() as u64, m.chars().count() as u64)));
}
