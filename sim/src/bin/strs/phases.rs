//! Kind-specific drivers of the string world.

use std::ffi::CStr;
use std::panic::{AssertUnwindSafe, catch_unwind};

use bump_scope::settings::BumpAllocatorSettings;
use bump_scope::traits::{BumpAllocatorCore, BumpAllocatorTypedScope, MutBumpAllocatorTypedScope};
use bump_scope::{BaseAllocator, Bump, BumpBox, BumpString, BumpVec, FixedBumpString, FixedBumpVec, MutBumpString, MutBumpVec};

use sim::heap;
use sim::runner::{Caught, classify_panic, harness_bug};
use sim::trace::Op;

use crate::api::*;
use crate::interp::*;

fn expect_cstr(s: &str) -> Vec<u8> {
    let mut v: Vec<u8> = match s.as_bytes().iter().position(|&b| b == 0) {
        Some(n) => s.as_bytes()[..n].to_vec(),
        None => s.as_bytes().to_vec(),
    };
    v.push(0);
    v
}

fn check_cstr(ctx: &mut Ctx, c: &CStr, src: &str, what: &str) {
    if c.to_bytes_with_nul() != expect_cstr(src).as_slice() {
        ctx.viol("C09/cstr-shape", format!("{what}: got {:?} for the text {:?}", c.to_bytes_with_nul(), src));
    }
}

fn settle<T>(ctx: &mut Ctx, r: Outcome<T>, what: &str) -> Option<T> {
    ctx.drain_heap_errors();
    match r {
        Outcome::Ok(v) => Some(v),
        Outcome::AllocFailed => {
            if ctx.refusals_in_op() > 0 {
                ctx.stats.probe("fault.op_failed_cleanly");
            } else {
                ctx.stats.bump("fail.without_refusal");
            }
            None
        }
        Outcome::Injected => {
            ctx.stats.probe("unwind.injected");
            None
        }
        Outcome::LibPanic(m) => {
            if !m.contains("formatting trait") {
                ctx.viol("C09/panic-mismatch", format!("{what} panicked: {m}"));
            }
            None
        }
    }
}

/// Stand-alone helpers that allocate a string / C string directly from the arena.
fn helper<'b, B: BumpAllocatorTypedScope<'b>>(ctx: &mut Ctx, bump: &B, op: &Op) {
    let try_ = !ctx.panicking_ok(op) || op.a[4] & 1 == 1;
    let src = text(op.a[1], op.a[2] as usize % 14);
    match op.a[0] % 5 {
        0 => {
            let r = ctx.call(op, || if try_ { bump.try_alloc_str(&src).map_err(drop) } else { Ok(bump.alloc_str(&src)) });
            if let Some(b) = settle(ctx, r, "alloc_str") {
                if &*b != src.as_str() {
                    ctx.viol("C09/contents-mismatch", format!("alloc_str: got {:?} for {:?}", &*b, src));
                }
            }
        }
        1 => {
            let r = ctx.call(op, || if try_ { bump.try_alloc_cstr_from_str(&src).map_err(drop) } else { Ok(bump.alloc_cstr_from_str(&src)) });
            if let Some(c) = settle(ctx, r, "alloc_cstr_from_str") {
                check_cstr(ctx, c, &src, "alloc_cstr_from_str");
                ctx.stats.probe("cstr.from_str");
            }
        }
        2 | 3 => {
            let p = piece(op, op.a[1]);
            let full: String = p.parts.concat();
            let fails = p.err_at.is_some_and(|k| k < p.parts.len());
            let cstr = op.a[0] % 5 == 3;
            if cstr {
                let r = ctx.call(op, || if try_ { bump.try_alloc_cstr_fmt(format_args!("{}", p)).map_err(drop) } else { Ok(bump.alloc_cstr_fmt(format_args!("{}", p))) });
                match r {
                    Outcome::Ok(c) => {
                        if fails {
                            ctx.viol("C09/fmt-result", "alloc_cstr_fmt returned although the Display impl returned an error".into());
                        }
                        check_cstr(ctx, c, &full, "alloc_cstr_fmt");
                        ctx.stats.probe("cstr.fmt");
                    }
                    Outcome::AllocFailed if fails => ctx.stats.probe("fmt.display_error"),
                    Outcome::LibPanic(m) if fails && m.contains("formatting trait") => ctx.stats.probe("fmt.display_error"),
                    other => {
                        settle(ctx, other, "alloc_cstr_fmt");
                    }
                }
            } else {
                let r = ctx.call(op, || if try_ { bump.try_alloc_fmt(format_args!("{}", p)).map_err(drop) } else { Ok(bump.alloc_fmt(format_args!("{}", p))) });
                match r {
                    Outcome::Ok(b) => {
                        if fails {
                            ctx.viol("C09/fmt-result", "alloc_fmt returned although the Display impl returned an error".into());
                        }
                        if &*b != full.as_str() {
                            ctx.viol("C09/contents-mismatch", format!("alloc_fmt: got {:?}, expected {:?}", &*b, full));
                        }
                    }
                    Outcome::AllocFailed if fails => ctx.stats.probe("fmt.display_error"),
                    Outcome::LibPanic(m) if fails && m.contains("formatting trait") => ctx.stats.probe("fmt.display_error"),
                    other => {
                        settle(ctx, other, "alloc_fmt");
                    }
                }
            }
        }
        _ => {
            let mut bytes = expect_cstr(&src);
            bytes.truncate(bytes.len());
            let c = CStr::from_bytes_with_nul(&bytes).unwrap();
            let r = ctx.call(op, || if try_ { bump.try_alloc_cstr(c).map_err(drop) } else { Ok(bump.alloc_cstr(c)) });
            if let Some(got) = settle(ctx, r, "alloc_cstr") {
                if got != c {
                    ctx.viol("C09/cstr-shape", "alloc_cstr changed the C string".into());
                }
            }
        }
    }
}

enum AnyS<'b, B: BumpAllocatorTypedScope<'b>> {
    Boxed(BumpBox<'b, str>),
    Fixed(FixedBumpString<'b>),
    Str(BumpString<B>),
}

impl<'b, B: BumpAllocatorTypedScope<'b>> AnyS<'b, B> {
    fn s(&self) -> &str {
        match self {
            AnyS::Boxed(b) => b,
            AnyS::Fixed(b) => b,
            AnyS::Str(b) => b,
        }
    }
    /// Capacity, for the kinds that have one.
    fn cap(&self) -> Option<usize> {
        match self {
            AnyS::Boxed(_) => None,
            AnyS::Fixed(b) => Some(b.capacity()),
            AnyS::Str(b) => Some(b.capacity()),
        }
    }
}

fn new_string<'b, B: BumpAllocatorTypedScope<'b> + Clone>(ctx: &mut Ctx, bump: &B, kind: u64, op: &Op) -> Option<(AnyS<'b, B>, String)> {
    let try_ = !ctx.panicking_ok(op) || op.a[4] & 1 == 1;
    let src = text(op.a[1], op.a[2] as usize % 20);
    let n = op.a[2] as usize % 24;
    let b = bump.clone();
    match kind {
        0 => {
            // BumpBox<str>
            match op.a[0] % 3 {
                0 => {
                    let r = ctx.call(op, || if try_ { bump.try_alloc_str(&src).map_err(drop) } else { Ok(bump.alloc_str(&src)) });
                    settle(ctx, r, "alloc_str").map(|x| (AnyS::Boxed(x), src))
                }
                1 => {
                    let bytes = raw_bytes(op.a[1], n);
                    let r = ctx.call(op, || bump.try_alloc_slice_copy(&bytes).map_err(drop));
                    let bx = settle(ctx, r, "alloc_slice_copy")?;
                    let std = std::str::from_utf8(&bytes);
                    match BumpBox::from_utf8(bx) {
                        Ok(s) => {
                            if std.is_err() {
                                ctx.viol("C09/from-utf8", format!("BumpBox::from_utf8 accepted invalid bytes {:?}", bytes));
                                return None;
                            }
                            ctx.stats.probe("from_utf8.ok");
                            let m = std.unwrap().to_string();
                            Some((AnyS::Boxed(s), m))
                        }
                        Err(e) => {
                            match std {
                                Ok(_) => ctx.viol("C09/from-utf8", format!("BumpBox::from_utf8 rejected valid bytes {:?}", bytes)),
                                Err(se) => {
                                    if e.utf8_error() != se || e.as_bytes() != bytes.as_slice() {
                                        ctx.viol("C09/from-utf8", "BumpBox::from_utf8: error or returned bytes differ from std".into());
                                    }
                                    ctx.stats.probe("from_utf8.rejected");
                                }
                            }
                            None
                        }
                    }
                }
                _ => {
                    let p = piece(&Op::new(K_NEW, &[]), op.a[1]);
                    let full: String = p.parts.concat();
                    let r = ctx.call(op, || if try_ { bump.try_alloc_fmt(format_args!("{}", p)).map_err(drop) } else { Ok(bump.alloc_fmt(format_args!("{}", p))) });
                    settle(ctx, r, "alloc_fmt").map(|x| (AnyS::Boxed(x), full))
                }
            }
        }
        1 => match op.a[0] % 3 {
            0 if (op.a[0] / 3) % 2 == 1 => {
                // `from_uninit`: an uninitialised byte slice becomes the whole capacity of an empty fixed string
                let r = ctx.call(op, || bump.try_alloc_uninit_slice::<u8>(n).map(FixedBumpString::from_uninit).map_err(drop));
                let r = settle(ctx, r, "FixedBumpString::from_uninit");
                if let Some(x) = &r {
                    ctx.stats.probe("fixed.from_uninit");
                    if x.capacity() != n || !x.is_empty() {
                        ctx.viol("C09/conversion-contents", format!("FixedBumpString::from_uninit of {n} bytes: len {} capacity {}", x.len(), x.capacity()));
                    }
                }
                r.map(|x| (AnyS::Fixed(x), String::new()))
            }
            0 => {
                let r = ctx.call(op, || if try_ { FixedBumpString::try_with_capacity_in(n, bump).map_err(drop) } else { Ok(FixedBumpString::with_capacity_in(n, bump)) });
                settle(ctx, r, "FixedBumpString::with_capacity_in").map(|x| (AnyS::Fixed(x), String::new()))
            }
            1 => {
                let r = ctx.call(op, || bump.try_alloc_str(&src).map_err(drop));
                settle(ctx, r, "alloc_str").map(|x| (AnyS::Fixed(FixedBumpString::from_init(x)), src))
            }
            _ => {
                let bytes = raw_bytes(op.a[1], n);
                let r = ctx.call(op, || {
                    let mut fv = FixedBumpVec::try_with_capacity_in(bytes.len() + 4, bump).map_err(drop)?;
                    fv.extend_from_slice_copy(&bytes);
                    Ok(fv)
                });
                let fv = settle(ctx, r, "FixedBumpVec<u8>")?;
                let std = String::from_utf8(bytes.clone());
                match (FixedBumpString::from_utf8(fv), std) {
                    (Ok(s), Ok(m)) => Some((AnyS::Fixed(s), m)),
                    (Err(e), Err(se)) => {
                        if e.utf8_error() != se.utf8_error() || e.as_bytes() != bytes.as_slice() {
                            ctx.viol("C09/from-utf8", "FixedBumpString::from_utf8: error differs from std".into());
                        }
                        None
                    }
                    _ => {
                        ctx.viol("C09/from-utf8", format!("FixedBumpString::from_utf8 disagrees with String::from_utf8 on {:?}", bytes));
                        None
                    }
                }
            }
        },
        _ => match op.a[0] % 7 {
            0 => Some((AnyS::Str(BumpString::new_in(b)), String::new())),
            1 => {
                let r = ctx.call(op, || if try_ { BumpString::try_with_capacity_in(n, b).map_err(drop) } else { Ok(BumpString::with_capacity_in(n, b)) });
                let s = settle(ctx, r, "with_capacity_in")?;
                if s.capacity() < n {
                    ctx.viol("C09/reserve-capacity", format!("with_capacity_in({n}) gave capacity {}", s.capacity()));
                }
                Some((AnyS::Str(s), String::new()))
            }
            2 => {
                let r = ctx.call(op, || if try_ { BumpString::try_from_str_in(&src, b).map_err(drop) } else { Ok(BumpString::from_str_in(&src, b)) });
                settle(ctx, r, "from_str_in").map(|x| (AnyS::Str(x), src))
            }
            3 => {
                let bytes = raw_bytes(op.a[1], n);
                let r = ctx.call(op, || if try_ { BumpString::try_from_utf8_lossy_in(&bytes, b).map_err(drop) } else { Ok(BumpString::from_utf8_lossy_in(&bytes, b)) });
                let m = String::from_utf8_lossy(&bytes).into_owned();
                ctx.stats.probe("from_utf8.lossy");
                settle(ctx, r, "from_utf8_lossy_in").map(|x| (AnyS::Str(x), m))
            }
            4 => {
                let units = raw_utf16(op.a[1], n);
                let r = ctx.call(op, || if try_ { BumpString::try_from_utf16_in(&units, b).map_err(drop) } else { Ok(BumpString::from_utf16_in(&units, b)) });
                let got = settle(ctx, r, "from_utf16_in")?;
                match (got, String::from_utf16(&units)) {
                    (Ok(s), Ok(m)) => Some((AnyS::Str(s), m)),
                    (Err(_), Err(_)) => {
                        ctx.stats.probe("from_utf16.rejected");
                        None
                    }
                    _ => {
                        ctx.viol("C09/from-utf16", format!("from_utf16_in disagrees with String::from_utf16 on {:?}", units));
                        None
                    }
                }
            }
            5 => {
                let units = raw_utf16(op.a[1], n);
                let r = ctx.call(op, || if try_ { BumpString::try_from_utf16_lossy_in(&units, b).map_err(drop) } else { Ok(BumpString::from_utf16_lossy_in(&units, b)) });
                let m = String::from_utf16_lossy(&units);
                settle(ctx, r, "from_utf16_lossy_in").map(|x| (AnyS::Str(x), m))
            }
            _ => {
                let bytes = raw_bytes(op.a[1], n);
                let r = ctx.call(op, || {
                    let mut bv = BumpVec::try_with_capacity_in(bytes.len(), b).map_err(drop)?;
                    bv.try_extend_from_slice_copy(&bytes).map_err(drop)?;
                    Ok(bv)
                });
                let bv = settle(ctx, r, "BumpVec<u8>")?;
                let std = String::from_utf8(bytes.clone());
                match (BumpString::from_utf8(bv), std) {
                    (Ok(s), Ok(m)) => Some((AnyS::Str(s), m)),
                    (Err(e), Err(se)) => {
                        if e.utf8_error() != se.utf8_error() || e.as_bytes() != bytes.as_slice() {
                            ctx.viol("C09/from-utf8", "BumpString::from_utf8: error differs from std".into());
                        }
                        ctx.stats.probe("from_utf8.rejected");
                        None
                    }
                    _ => {
                        ctx.viol("C09/from-utf8", format!("BumpString::from_utf8 disagrees with String::from_utf8 on {:?}", bytes));
                        None
                    }
                }
            }
        },
    }
}

pub fn drive_shared<'b, B: BumpAllocatorTypedScope<'b> + Clone>(ctx: &mut Ctx, bump: &B, kind: u64) {
    let mut vs: Vec<AnyS<'b, B>> = Vec::new();
    let mut ms: Vec<String> = Vec::new();
    // which strings are the product of a split (C16 only judges those)
    let mut parts: Vec<bool> = Vec::new();
    while let Some(op) = ctx.next_op() {
        if ctx.verbose {
            eprintln!("[{}] {} | {:?}", ctx.cur_op, sim::trace::op_text(&op, OP_NAMES), ms);
        }
        match op.kind {
            K_NEW => {
                if vs.len() < 3 {
                    if let Some((v, m)) = new_string(ctx, bump, kind, &op) {
                        if v.s() != m {
                            ctx.viol("C09/contents-mismatch", format!("constructor: got {:?}, expected {:?}", v.s(), m));
                        }
                        vs.push(v);
                        ms.push(m);
                        parts.push(false);
                    }
                }
            }
            K_HELPER => helper(ctx, bump, &op),
            _ if vs.is_empty() => {
                if let Some((v, m)) = new_string(ctx, bump, kind, &Op::new(K_NEW, &[if kind == 1 { 0 } else { 2 }, 7, 11])) {
                    vs.push(v);
                    ms.push(m);
                    parts.push(false);
                }
            }
            k if k <= LAST_COMMON => {
                let t = op.a[5] as usize / 2 % vs.len();
                match &mut vs[t] {
                    AnyS::Boxed(v) => exec_common(ctx, v, &mut ms[t], &op),
                    AnyS::Fixed(v) => exec_common(ctx, v, &mut ms[t], &op),
                    AnyS::Str(v) => exec_common(ctx, v, &mut ms[t], &op),
                }
            }
            K_SPLIT_OFF => {
                let t = op.a[2] as usize % vs.len();
                if vs.len() >= 3 {
                    continue;
                }
                let r = range_arg(op.a[0], op.a[1], ms[t].len());
                let valid = valid_range(r, &ms[t]);
                let cap_before = vs[t].cap();
                let out = ctx.call(&op, || {
                    Ok(match &mut vs[t] {
                        AnyS::Boxed(v) => AnyS::Boxed(v.split_off(r)),
                        AnyS::Fixed(v) => AnyS::Fixed(v.split_off(r)),
                        AnyS::Str(v) => AnyS::Str(v.split_off(r)),
                    })
                });
                match (out, valid) {
                    (Outcome::Ok(part), Some((s, e))) => {
                        let pm = ms[t][s..e].to_string();
                        ms[t].replace_range(s..e, "");
                        if part.s() != pm || vs[t].s() != ms[t] {
                            ctx.viol("C09/split-contents", format!("split_off({s}..{e}): got {:?} + {:?}, expected {:?} + {:?}", vs[t].s(), part.s(), ms[t], pm));
                            ctx.viol("C16/split-contents", format!("split_off({s}..{e}): got {:?} + {:?}, expected {:?} + {:?}", vs[t].s(), part.s(), ms[t], pm));
                        }
                        if let (Some(c0), Some(c1), Some(c2)) = (cap_before, vs[t].cap(), part.cap()) {
                            if c1 + c2 != c0 {
                                ctx.viol("C16/split-capacity", format!("split_off({s}..{e}) of a string with capacity {c0} left capacities {c1} + {c2}"));
                            }
                            if c1 < vs[t].s().len() || c2 < part.s().len() {
                                ctx.viol("C16/split-capacity", format!("split_off({s}..{e}): a part has capacity below its length ({c1} < {} or {c2} < {})", vs[t].s().len(), part.s().len()));
                            }
                        }
                        ctx.stats.probe("op.split_off_ok");
                        parts[t] = true;
                        ms[t] = vs[t].s().to_string();
                        let pm = part.s().to_string();
                        vs.push(part);
                        ms.push(pm);
                        parts.push(true);
                    }
                    (Outcome::Ok(part), None) => {
                        ctx.viol("C09/panic-mismatch", format!("split_off with an out-of-range or non-boundary range {:?} on {:?} returned", r, ms[t]));
                        drop(part);
                        let m = vs[t].s().to_string();
                        ms[t] = m;
                    }
                    (Outcome::LibPanic(msg), Some(_)) => ctx.viol("C09/panic-mismatch", format!("split_off with a valid range panicked: {msg}")),
                    (Outcome::LibPanic(_), None) => {
                        ctx.stats.probe("panic.expected_library_panic");
                        if vs[t].s() != ms[t] {
                            ctx.viol("C09/changed-by-rejected-call", "split_off panicked but the string changed".into());
                        }
                    }
                    _ => {}
                }
            }
            K_SHRINK => {
                let t = op.a[0] as usize % vs.len();
                if let AnyS::Str(v) = &mut vs[t] {
                    if op.a[1] & 1 == 0 {
                        v.shrink_to_fit();
                    } else {
                        v.shrink_to(op.a[2] as usize % 40);
                    }
                    if v.as_str() != ms[t] {
                        ctx.viol("C09/contents-mismatch", "shrink_to_fit changed the contents".into());
                    }
                }
            }
            K_CONVERT => {
                let t = op.a[0] as usize % vs.len();
                let v = vs.swap_remove(t);
                let m = ms.swap_remove(t);
                let was_part = parts.swap_remove(t);
                let b = bump.clone();
                if (op.a[1] / 3) % 4 == 3 && !matches!(v, AnyS::Boxed(_)) {
                    // `into_str`: the text as a plain `&mut str` living in the arena (ends this string's life here)
                    let got: &mut str = match v {
                        AnyS::Str(s) => s.into_str(),
                        AnyS::Fixed(s) => s.into_str(),
                        AnyS::Boxed(_) => unreachable!(),
                    };
                    ctx.stats.probe("convert.into_str");
                    if got != m.as_str() {
                        ctx.viol("C09/conversion-contents", format!("into_str: got {:?}, expected {:?}", got, m));
                    }
                    if std::str::from_utf8(got.as_bytes()).is_err() {
                        ctx.viol("C09/invalid-utf8", "into_str returned invalid UTF-8".into());
                    }
                    continue;
                }
                let nv = match v {
                    AnyS::Str(s) => match op.a[1] % 3 {
                        0 => AnyS::Boxed(s.into_boxed_str()),
                        1 => AnyS::Fixed(s.into_fixed_string()),
                        _ => {
                            let (f, a) = s.into_parts();
                            AnyS::Str(BumpString::from_parts(f, a))
                        }
                    },
                    AnyS::Fixed(s) => match op.a[1] % 3 {
                        0 => AnyS::Boxed(s.into_boxed_str()),
                        1 => AnyS::Str(s.into_string(b)),
                        _ => AnyS::Fixed(s),
                    },
                    AnyS::Boxed(s) => match op.a[1] % 2 {
                        0 => AnyS::Fixed(FixedBumpString::from_init(s)),
                        _ => {
                            let bytes = s.into_boxed_bytes();
                            match BumpBox::from_utf8(bytes) {
                                Ok(s) => AnyS::Boxed(s),
                                Err(_) => {
                                    ctx.viol("C09/from-utf8", "bytes of a BumpBox<str> were rejected by from_utf8".into());
                                    continue;
                                }
                            }
                        }
                    },
                };
                if nv.s() != m {
                    ctx.viol("C09/conversion-contents", format!("conversion changed the text: {:?} vs {:?}", nv.s(), m));
                }
                vs.push(nv);
                ms.push(m);
                parts.push(was_part);
            }
            K_FINISH => {
                let t = op.a[0] as usize % vs.len();
                let v = vs.swap_remove(t);
                let m = ms.swap_remove(t);
                parts.swap_remove(t);
                if let AnyS::Str(s) = v {
                    let try_ = !ctx.panicking_ok(&op) || op.a[1] & 1 == 1;
                    let r = ctx.call(&op, || if try_ { s.try_into_cstr().map_err(drop) } else { Ok(s.into_cstr()) });
                    if let Some(c) = settle(ctx, r, "into_cstr") {
                        check_cstr(ctx, c, &m, "into_cstr");
                        ctx.stats.probe("cstr.into_cstr");
                    }
                }
            }
            K_DROP => {
                let t = op.a[0] as usize % vs.len();
                vs.swap_remove(t);
                ms.swap_remove(t);
                parts.swap_remove(t);
            }
            _ => {}
        }
        assert_eq!(parts.len(), vs.len());
        for (i, (v, m)) in vs.iter().zip(ms.iter()).enumerate() {
            if v.s() != m {
                ctx.viol("C09/sibling-changed", format!("a string that was not touched changed: {:?} vs {:?}", v.s(), m));
                if parts[i] {
                    ctx.viol("C16/part-changed-by-sibling", format!("a part of a split that was not touched changed: {:?} vs {:?}", v.s(), m));
                }
                break;
            }
            if std::str::from_utf8(v.s().as_bytes()).is_err() {
                ctx.viol("C09/invalid-utf8", "invalid UTF-8".into());
            }
        }
        ctx.drain_heap_errors();
    }
}

/// Positions of all chunks (small to big), index of the current one, allocated bytes.
type Pos = (Vec<(usize, usize)>, Option<usize>, usize);

fn any_positions(st: bump_scope::stats::AnyStats<'_>) -> Pos {
    let chunks: Vec<(usize, usize)> = st.small_to_big().map(|c| (c.chunk_start().as_ptr() as usize, c.bump_position().as_ptr() as usize)).collect();
    let cur = st.current_chunk().map(|c| c.chunk_start().as_ptr() as usize);
    (chunks.clone(), cur.and_then(|s| chunks.iter().position(|c| c.0 == s)), st.allocated())
}

/// C15: every chunk up to and including the original current chunk keeps its position; the current chunk may only
/// move forward to a later one.
fn check_positions(ctx: &mut Ctx, mark: &Pos, now: &Pos, what: &str) {
    if !ctx.c15 {
        return;
    }
    let upto = mark.1.map_or(0, |c| c + 1);
    for i in 0..upto {
        if now.0.get(i) != Some(&mark.0[i]) {
            ctx.viol("C15/position-moved", format!("{what}: the bump position of chunk #{i} changed while an exclusive-borrow string was being filled or dropped"));
            return;
        }
    }
    match (mark.1, now.1) {
        (a, b) if a == b => {}
        (Some(a), Some(b)) if b > a => ctx.stats.probe("c15.moved_to_later_chunk"),
        (None, Some(_)) => ctx.stats.probe("c15.moved_to_later_chunk"),
        _ => ctx.viol("C15/current-chunk-went-back", format!("{what}: current chunk index went from {:?} to {:?}", mark.1, now.1)),
    }
}

/// C15: gone without being finalised: same position, or a later chunk that is still empty.
fn check_unfinalised<B: BumpAllocatorCore + ?Sized>(ctx: &mut Ctx, b: &B, mark: &Pos, what: &str) {
    if !ctx.c15 {
        return;
    }
    let now = any_positions(b.any_stats());
    check_positions(ctx, mark, &now, what);
    if now.1 != mark.1 {
        let used = b.any_stats().current_chunk().map_or(0, |c| c.allocated());
        if used != 0 {
            ctx.viol("C15/later-chunk-not-empty", format!("{what}: a later chunk became current and has {used} bytes allocated"));
        }
    } else if now.2 != mark.2 {
        ctx.viol("C15/position-moved", format!("{what}: allocated() went from {} to {}", mark.2, now.2));
    }
}

/// C15: finalised with `bytes` bytes of contents: the position advanced by at most that plus the minimum-alignment padding.
fn check_finalised<B: BumpAllocatorCore + ?Sized>(ctx: &mut Ctx, b: &B, mark: &Pos, bytes: usize, min_align: usize, what: &str) {
    if !ctx.c15 {
        return;
    }
    let now = any_positions(b.any_stats());
    let bound = bytes + (min_align - 1);
    if now.1 == mark.1 {
        let delta = now.2.wrapping_sub(mark.2);
        if now.2 < mark.2 || delta > bound {
            ctx.viol("C15/finalise-wasted-space", format!("{what}: {bytes} bytes of contents moved allocated() from {} to {} (bound {bound})", mark.2, now.2));
        }
    } else {
        check_positions(ctx, mark, &now, what);
        let used = b.any_stats().current_chunk().map_or(0, |c| c.allocated());
        if used > bound {
            ctx.viol("C15/finalise-wasted-space", format!("{what}: {bytes} bytes of contents in a fresh chunk left {used} > {bound} bytes allocated in it"));
        }
    }
    ctx.stats.probe("c15.finalised");
}

/// What became of one exclusive-borrow string.
enum StrFin {
    NotCreated,
    Unfinalised,
    /// finalised, with this many bytes of contents (including the NUL of a C string)
    Finalised(usize),
}

fn one_mut<'b, B: MutBumpAllocatorTypedScope<'b> + BumpAllocatorCore>(ctx: &mut Ctx, bump: &mut B, first: &Op, mark: &Pos) -> StrFin {
    let try_ = !ctx.panicking_ok(first) || first.a[4] & 1 == 1;
    let src = text(first.a[1], first.a[2] as usize % 20);
    let n = first.a[2] as usize % 24;
    let how = if first.kind == K_NEW { first.a[0] % 6 } else { 0 };
    let (created, mut m): (Outcome<MutBumpString<&mut B>>, String) = match how {
        0 => (ctx.call(first, || Ok(MutBumpString::new_in(&mut *bump))), String::new()),
        1 => (ctx.call(first, || if try_ { MutBumpString::try_with_capacity_in(n, &mut *bump).map_err(drop) } else { Ok(MutBumpString::with_capacity_in(n, &mut *bump)) }), String::new()),
        2 => (ctx.call(first, || if try_ { MutBumpString::try_from_str_in(&src, &mut *bump).map_err(drop) } else { Ok(MutBumpString::from_str_in(&src, &mut *bump)) }), src.clone()),
        3 => {
            let bytes = raw_bytes(first.a[1], n);
            let m = String::from_utf8_lossy(&bytes).into_owned();
            (ctx.call(first, || if try_ { MutBumpString::try_from_utf8_lossy_in(&bytes, &mut *bump).map_err(drop) } else { Ok(MutBumpString::from_utf8_lossy_in(&bytes, &mut *bump)) }), m)
        }
        4 => {
            let units = raw_utf16(first.a[1], n);
            let m = String::from_utf16_lossy(&units);
            (ctx.call(first, || if try_ { MutBumpString::try_from_utf16_lossy_in(&units, &mut *bump).map_err(drop) } else { Ok(MutBumpString::from_utf16_lossy_in(&units, &mut *bump)) }), m)
        }
        _ => {
            let bytes = raw_bytes(first.a[1], n);
            let std = String::from_utf8(bytes.clone());
            let r = ctx.call(first, || {
                let mut mv = MutBumpVec::try_with_capacity_in(bytes.len(), &mut *bump).map_err(drop)?;
                mv.try_extend_from_slice_copy(&bytes).map_err(drop)?;
                Ok(mv)
            });
            let Some(mv) = settle(ctx, r, "MutBumpVec<u8>") else { return StrFin::NotCreated };
            match (MutBumpString::from_utf8(mv), std) {
                (Ok(s), Ok(m)) => (Outcome::Ok(s), m),
                (Err(e), Err(se)) => {
                    if e.utf8_error() != se.utf8_error() {
                        ctx.viol("C09/from-utf8", "MutBumpString::from_utf8: error differs from std".into());
                    }
                    return StrFin::Unfinalised;
                }
                _ => {
                    ctx.viol("C09/from-utf8", "MutBumpString::from_utf8 disagrees with String::from_utf8".into());
                    return StrFin::Unfinalised;
                }
            }
        }
    };
    let Some(mut v) = settle(ctx, created, "MutBumpString constructor") else { return StrFin::NotCreated };
    if v.as_str() != m {
        ctx.viol("C09/contents-mismatch", format!("constructor: got {:?}, expected {:?}", v.as_str(), m));
        m = v.as_str().to_string();
    }
    let mut fin: Option<Op> = None;
    while let Some(op) = ctx.next_op() {
        if ctx.verbose {
            eprintln!("[{}] {} | {:?}", ctx.cur_op, sim::trace::op_text(&op, OP_NAMES), m);
        }
        if op.kind <= LAST_COMMON {
            exec_common(ctx, &mut v, &mut m, &op);
            if ctx.c15 {
                let st: bump_scope::stats::AnyStats = v.allocator_stats().into();
                let now = any_positions(st);
                check_positions(ctx, mark, &now, "while a MutBumpString is being filled");
            }
        } else if matches!(op.kind, K_FINISH | K_DROP | K_CONVERT) {
            fin = Some(op);
            break;
        }
    }
    let fin = fin.unwrap_or_else(|| Op::new(K_DROP, &[]));
    match fin.kind {
        K_FINISH => {
            let try_ = !ctx.panicking_ok(&fin) || fin.a[1] & 1 == 1;
            let r = ctx.call(&fin, || if try_ { v.try_into_cstr().map_err(drop) } else { Ok(v.into_cstr()) });
            if let Some(c) = settle(ctx, r, "into_cstr") {
                let n = c.to_bytes_with_nul().len();
                check_cstr(ctx, c, &m, "into_cstr");
                ctx.stats.probe("cstr.into_cstr");
                return StrFin::Finalised(n);
            }
            StrFin::Unfinalised
        }
        K_CONVERT => {
            let got = if (fin.a[1] / 3) % 2 == 1 { v.into_str().to_string() } else { v.into_boxed_str().to_string() };
            if got != m {
                ctx.viol("C09/conversion-contents", format!("into_boxed_str / into_str: got {:?}, expected {:?}", got, m));
            }
            StrFin::Finalised(got.len())
        }
        _ => StrFin::Unfinalised,
    }
}

pub fn drive_mut<'b, B: MutBumpAllocatorTypedScope<'b> + BumpAllocatorCore>(ctx: &mut Ctx, bump: &mut B, min_align: usize) {
    while let Some(first) = ctx.next_op() {
        let mark: Pos = any_positions(bump.any_stats());
        if ctx.verbose {
            eprintln!("[{}] create via {}", ctx.cur_op, sim::trace::op_text(&first, OP_NAMES));
        }
        if first.kind == K_HELPER {
            let try_ = !ctx.panicking_ok(&first) || first.a[4] & 1 == 1;
            let p = piece(&first, first.a[1]);
            let full: String = p.parts.concat();
            let fails = p.err_at.is_some_and(|k| k < p.parts.len());
            if first.a[0] & 1 == 0 {
                let r = ctx.call(&first, || if try_ { bump.try_alloc_fmt_mut(format_args!("{}", p)).map(|b| b.to_string()).map_err(drop) } else { Ok(bump.alloc_fmt_mut(format_args!("{}", p)).to_string()) });
                match r {
                    Outcome::Ok(got) => {
                        if fails || got != full {
                            ctx.viol("C09/contents-mismatch", format!("alloc_fmt_mut: got {:?}, expected {:?} (display error: {fails})", got, full));
                        }
                        check_finalised(ctx, &*bump, &mark, got.len(), min_align, "alloc_fmt_mut");
                    }
                    Outcome::AllocFailed if fails => {
                        ctx.stats.probe("fmt.display_error");
                        check_unfinalised(ctx, &*bump, &mark, "alloc_fmt_mut whose Display impl failed");
                    }
                    Outcome::LibPanic(m) if fails && m.contains("formatting trait") => {
                        ctx.stats.probe("fmt.display_error");
                        check_unfinalised(ctx, &*bump, &mark, "alloc_fmt_mut whose Display impl failed");
                    }
                    other => {
                        settle(ctx, other, "alloc_fmt_mut");
                        check_unfinalised(ctx, &*bump, &mark, "alloc_fmt_mut that failed or unwound");
                    }
                }
            } else {
                let r = ctx.call(&first, || if try_ { bump.try_alloc_cstr_fmt_mut(format_args!("{}", p)).map(|c| c.to_bytes_with_nul().to_vec()).map_err(drop) } else { Ok(bump.alloc_cstr_fmt_mut(format_args!("{}", p)).to_bytes_with_nul().to_vec()) });
                match r {
                    Outcome::Ok(got) => {
                        if fails || got != expect_cstr(&full) {
                            ctx.viol("C09/cstr-shape", format!("alloc_cstr_fmt_mut: got {:?} for the text {:?}", got, full));
                        }
                        ctx.stats.probe("cstr.fmt");
                        check_finalised(ctx, &*bump, &mark, got.len(), min_align, "alloc_cstr_fmt_mut");
                    }
                    Outcome::AllocFailed if fails => {
                        ctx.stats.probe("fmt.display_error");
                        check_unfinalised(ctx, &*bump, &mark, "alloc_cstr_fmt_mut whose Display impl failed");
                    }
                    Outcome::LibPanic(m) if fails && m.contains("formatting trait") => {
                        ctx.stats.probe("fmt.display_error");
                        check_unfinalised(ctx, &*bump, &mark, "alloc_cstr_fmt_mut whose Display impl failed");
                    }
                    other => {
                        settle(ctx, other, "alloc_cstr_fmt_mut");
                        check_unfinalised(ctx, &*bump, &mark, "alloc_cstr_fmt_mut that failed or unwound");
                    }
                }
            }
            continue;
        }
        match one_mut(ctx, &mut *bump, &first, &mark) {
            StrFin::NotCreated | StrFin::Unfinalised => check_unfinalised(ctx, &*bump, &mark, "a MutBumpString that was dropped, unwound or never created"),
            StrFin::Finalised(n) => check_finalised(ctx, &*bump, &mark, n, min_align, "finalising a MutBumpString"),
        }
        ctx.drain_heap_errors();
    }
}

pub fn run<A, S>(ctx: &mut Ctx)
where
    A: BaseAllocator<S::GuaranteedAllocated> + Default,
    S: BumpAllocatorSettings,
{
    let kind = ctx.trace.param_or("kind", 2) % 4;
    let made = catch_unwind(AssertUnwindSafe(|| Bump::<A, S>::try_new_in(A::default())));
    let mut bump: Bump<A, S> = match made {
        Ok(Ok(b)) => b,
        Ok(Err(_)) => {
            if !ctx.faulty {
                harness_bug("creating the arena failed without any fault configured".into());
            }
            return;
        }
        Err(p) => match classify_panic(p) {
            Caught::Harness(m) => harness_bug(m),
            _ => harness_bug("constructor panicked".into()),
        },
    };
    if kind == 3 {
        if S::UP {
            drive_mut(ctx, &mut &mut bump, S::MIN_ALIGN)
        } else {
            drive_mut(ctx, &mut bump.as_mut_scope(), S::MIN_ALIGN)
        }
    } else if S::UP {
        drive_shared(ctx, &bump.as_scope(), kind)
    } else {
        drive_shared(ctx, &&bump, kind)
    }
    drop(bump);
    heap::with(0, |h| h.final_check(true));
    ctx.drain_heap_errors();
    let fired = heap::with(0, |h| h.fired);
    for (i, n) in fired.iter().enumerate() {
        if *n > 0 {
            ctx.stats.add(&format!("fault.{}", heap::FAULT_NAMES[i]), *n);
            ctx.stats.run_nontrivial = true;
        }
    }
}
