//! Seeded generation of string-world traces.

use sim::rng::Rng;
use sim::runner::Tier;
use sim::trace::{Op, Trace};

use crate::interp::*;

pub fn generate(prop: &str, run_seed: u64, _index: u64, tier: Tier) -> Trace {
    let root = Rng::new(run_seed);
    let mut rc = root.fork(1);
    let mut rf = root.fork(2);
    let mut rw = root.fork(3);
    let mut r = root.fork(4);
    let mut t = Trace { world: "strs".into(), prop: prop.into(), seed: run_seed, ..Default::default() };
    t.set_param("setting", rc.below(crate::N_SETTINGS));
    t.set_param("kind", if prop == "C15" { 3 } else { rc.below(4) });
    t.set_param("policy", rc.below(5));
    t.set_param("heap_seed", rc.next() >> 16);
    let panic_rate = *rf.pick(&[0u64, 10, 30]);
    let refuse_rate = *rf.pick(&[0u64, 0, 5, 15]);
    let mut w = vec![0u32; OP_NAMES.len()];
    let base: &[(u16, u32)] = &[
        (K_PUSH, 8), (K_PUSH_STR, 8), (K_INSERT, 8), (K_INSERT_STR, 8), (K_REMOVE, 8), (K_POP, 3), (K_TRUNCATE, 6), (K_CLEAR, 1), (K_RETAIN, 6), (K_DRAIN, 8),
        (K_REPLACE_RANGE, 8), (K_EXT_WITHIN, 6), (K_EXT_ZEROED, 2), (K_RESERVE, 3), (K_WRITE_FMT, 5), (K_SPLIT_OFF, 6), (K_NEW, 6), (K_FINISH, 3), (K_HELPER, 5),
        (K_SHRINK, 2), (K_CONVERT, 3), (K_DROP, 1),
    ];
    for &(k, x) in base {
        w[k as usize] = x;
    }
    if prop == "C16" {
        // splitting and what happens to the parts afterwards
        w[K_SPLIT_OFF as usize] = 30;
        w[K_CONVERT as usize] = 8;
        w[K_DROP as usize] = 4;
        w[K_SHRINK as usize] = 6;
        w[K_RESERVE as usize] = 8;
    }
    for k in 0..w.len() {
        if w[k] > 0 && !(prop == "C16" && k as u16 == K_SPLIT_OFF) && k as u16 != K_PUSH_STR && k as u16 != K_NEW && rw.chance(1, 6) {
            w[k] = 0;
        }
    }
    let max_ops = match tier {
        Tier::Quick => 30,
        Tier::Thorough => 60,
    };
    let n_ops = 3 + rw.below(max_ops - 2);
    for _ in 0..n_ops {
        let k = r.weighted(&w) as u16;
        let mut op = Op::new(k, &[r.below(1 << 16), r.below(1 << 16), r.below(1 << 16), r.below(1 << 16), r.below(8), r.below(8)]);
        if panic_rate > 0 && matches!(k, K_RETAIN | K_WRITE_FMT | K_HELPER | K_NEW) && rf.below(100) < panic_rate {
            op.panic_at = 1 + rf.below(8) as u32;
        }
        if refuse_rate > 0 && rf.below(100) < refuse_rate {
            if rf.chance(3, 4) {
                op.fail_nth = 1 + rf.below(2) as u32;
            } else {
                op.burst = 1 + rf.below(2) as u32;
            }
        }
        t.ops.push(op);
    }
    t
}
