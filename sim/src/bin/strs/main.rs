//! String world: BumpBox<str>, FixedBumpString, BumpString, MutBumpString in lock-step with std's String (C09).

mod api;
mod generate;
mod interp;
mod phases;

use bump_scope::settings::BumpSettings;
use sim::heap::{self, H0, H8, Policy};
use sim::runner::{Stats, Tier, World, main_for};
use sim::trace::{Trace, Violation};

pub const N_SETTINGS: u64 = 4;

struct StrWorld;

impl World for StrWorld {
    const NAME: &'static str = "strs";
    fn op_names() -> &'static [&'static str] {
        interp::OP_NAMES
    }
    fn props() -> &'static [&'static str] {
        &["C09", "C15", "C16"]
    }
    fn generate(prop: &str, run_seed: u64, index: u64, tier: Tier) -> Trace {
        generate::generate(prop, run_seed, index, tier)
    }
    fn execute(trace: &Trace, stats: &mut Stats) -> Vec<Violation> {
        heap::with(0, |h| h.reset(trace.param_or("heap_seed", 1), Policy::from_u64(trace.param_or("policy", 0))));
        let setting = trace.param_or("setting", 0) % N_SETTINGS;
        let kind = trace.param_or("kind", 2) % 4;
        stats.sig_mix(setting * 8 + kind);
        stats.bump(&format!("config.setting{setting}"));
        stats.bump(&format!("kind.{}", api::KIND_NAMES[kind as usize]));
        let mut ctx = interp::Ctx::new(trace, stats);
        match setting {
            0 => phases::run::<H0<0>, BumpSettings<1, true, true, true, true, true, 1>>(&mut ctx),
            1 => phases::run::<H8<0>, BumpSettings<1, false, true, true, true, true, 1>>(&mut ctx),
            2 => phases::run::<H8<0>, BumpSettings<8, true, true, true, true, true, 512>>(&mut ctx),
            _ => phases::run::<H0<0>, BumpSettings<8, false, true, true, true, true, 1>>(&mut ctx),
        }
        ctx.viols
    }
}

fn main() {
    main_for::<StrWorld>();
}
