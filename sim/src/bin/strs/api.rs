//! One interface over the four string types.

use std::ops::Bound;

use bump_scope::traits::{BumpAllocatorTypedScope, MutBumpAllocatorTypedScope};
use bump_scope::{BumpBox, BumpString, FixedBumpString, MutBumpString};

pub type R = (Bound<usize>, Bound<usize>);

#[derive(Clone, Copy, PartialEq, Eq, Debug)]
pub enum SKind {
    Boxed = 0,
    Fixed = 1,
    Str = 2,
    MutStr = 3,
}

pub const KIND_NAMES: [&str; 4] = ["BumpBox<str>", "FixedBumpString", "BumpString", "MutBumpString"];

fn m<T>(r: Result<T, bump_scope::alloc::AllocError>) -> Result<(), ()> {
    r.map(drop).map_err(drop)
}

pub trait StrApi {
    const KIND: SKind;
    const GROWS: bool = true;
    fn s(&self) -> &str;
    fn bytes(&self) -> &[u8];
    fn cap(&self) -> usize;
    fn s_pop(&mut self) -> Option<char>;
    fn s_remove(&mut self, i: usize) -> char;
    fn s_truncate(&mut self, n: usize);
    fn s_clear(&mut self);
    fn s_retain(&mut self, f: &mut dyn FnMut(char) -> bool);
    /// consumes `front` chars from the front, `back` from the back, then drops (or forgets) the iterator
    fn s_drain(&mut self, r: R, front: usize, back: usize, forget: bool) -> String;
    fn s_push(&mut self, _c: char, _try: bool) -> Result<(), ()> {
        unreachable!()
    }
    fn s_push_str(&mut self, _s: &str, _try: bool) -> Result<(), ()> {
        unreachable!()
    }
    fn s_insert(&mut self, _i: usize, _c: char, _try: bool) -> Result<(), ()> {
        unreachable!()
    }
    fn s_insert_str(&mut self, _i: usize, _s: &str, _try: bool) -> Result<(), ()> {
        unreachable!()
    }
    fn s_extend_from_within(&mut self, _r: R, _try: bool) -> Result<(), ()> {
        unreachable!()
    }
    fn s_extend_zeroed(&mut self, _n: usize, _try: bool) -> Result<(), ()> {
        unreachable!()
    }
    fn s_replace_range(&mut self, _r: R, _s: &str, _try: bool) -> Result<(), ()> {
        unreachable!()
    }
    fn s_reserve(&mut self, _n: usize, _try: bool) -> Result<(), ()> {
        unreachable!()
    }
    fn s_write_fmt(&mut self, _args: std::fmt::Arguments<'_>) -> Result<(), ()> {
        unreachable!()
    }
}

macro_rules! shrink {
    () => {
        #[inline]
        fn s(&self) -> &str {
            self
        }
        #[inline]
        fn bytes(&self) -> &[u8] {
            self.as_bytes()
        }
        #[inline]
        fn s_pop(&mut self) -> Option<char> {
            self.pop()
        }
        #[inline]
        fn s_remove(&mut self, i: usize) -> char {
            self.remove(i)
        }
        #[inline]
        fn s_truncate(&mut self, n: usize) {
            self.truncate(n)
        }
        #[inline]
        fn s_clear(&mut self) {
            self.clear()
        }
        #[inline]
        fn s_retain(&mut self, f: &mut dyn FnMut(char) -> bool) {
            self.retain(|c| f(c))
        }
        #[inline]
        fn s_drain(&mut self, r: R, front: usize, back: usize, forget: bool) -> String {
            let mut d = self.drain(r);
            let mut out = String::new();
            for _ in 0..front {
                match d.next() {
                    Some(c) => out.push(c),
                    None => break,
                }
            }
            for _ in 0..back {
                match d.next_back() {
                    Some(c) => out.push(c),
                    None => break,
                }
            }
            if forget {
                std::mem::forget(d);
            }
            out
        }
    };
}

macro_rules! grow {
    () => {
        #[inline]
        fn s_push(&mut self, c: char, try_: bool) -> Result<(), ()> {
            // the panicking form alternates between push and fmt::Write::write_char
            if try_ {
                m(self.try_push(c))
            } else if (c as u32) % 2 == 0 {
                Ok(self.push(c))
            } else {
                Ok(std::fmt::Write::write_char(self, c).expect("a formatting trait implementation returned an error"))
            }
        }
        #[inline]
        fn s_push_str(&mut self, s: &str, try_: bool) -> Result<(), ()> {
            // the panicking form alternates between push_str, `+=` and fmt::Write::write_str
            if try_ {
                m(self.try_push_str(s))
            } else {
                match s.len() % 3 {
                    0 => Ok(self.push_str(s)),
                    1 => Ok(*self += s),
                    _ => Ok(std::fmt::Write::write_str(self, s).expect("a formatting trait implementation returned an error")),
                }
            }
        }
        #[inline]
        fn s_insert(&mut self, i: usize, c: char, try_: bool) -> Result<(), ()> {
            if try_ { m(self.try_insert(i, c)) } else { Ok(self.insert(i, c)) }
        }
        #[inline]
        fn s_insert_str(&mut self, i: usize, s: &str, try_: bool) -> Result<(), ()> {
            if try_ { m(self.try_insert_str(i, s)) } else { Ok(self.insert_str(i, s)) }
        }
        #[inline]
        fn s_extend_from_within(&mut self, r: R, try_: bool) -> Result<(), ()> {
            if try_ { m(self.try_extend_from_within(r)) } else { Ok(self.extend_from_within(r)) }
        }
        #[inline]
        fn s_extend_zeroed(&mut self, n: usize, try_: bool) -> Result<(), ()> {
            if try_ { m(self.try_extend_zeroed(n)) } else { Ok(self.extend_zeroed(n)) }
        }
        #[inline]
        fn s_replace_range(&mut self, r: R, s: &str, try_: bool) -> Result<(), ()> {
            if try_ { m(self.try_replace_range(r, s)) } else { Ok(self.replace_range(r, s)) }
        }
        #[inline]
        fn s_reserve(&mut self, n: usize, try_: bool) -> Result<(), ()> {
            if try_ { m(self.try_reserve(n)) } else { Ok(self.reserve(n)) }
        }
        #[inline]
        fn s_write_fmt(&mut self, args: std::fmt::Arguments<'_>) -> Result<(), ()> {
            std::fmt::Write::write_fmt(self, args).map_err(drop)
        }
    };
}

impl<'a> StrApi for BumpBox<'a, str> {
    const KIND: SKind = SKind::Boxed;
    const GROWS: bool = false;
    fn cap(&self) -> usize {
        self.len()
    }
    shrink!();
}

impl<'a> StrApi for FixedBumpString<'a> {
    const KIND: SKind = SKind::Fixed;
    fn cap(&self) -> usize {
        self.capacity()
    }
    shrink!();
    grow!();
}

impl<'a, A: BumpAllocatorTypedScope<'a>> StrApi for BumpString<A> {
    const KIND: SKind = SKind::Str;
    fn cap(&self) -> usize {
        self.capacity()
    }
    shrink!();
    grow!();
}

impl<'a, A: MutBumpAllocatorTypedScope<'a>> StrApi for MutBumpString<A> {
    const KIND: SKind = SKind::MutStr;
    fn cap(&self) -> usize {
        self.capacity()
    }
    shrink!();
    grow!();
}
