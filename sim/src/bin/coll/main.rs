//! Collection world: the bump-allocated vector types against a reference model and a drop ledger.
//! Serves C06 C08 C15 C16 and the collection part of C07 (DESIGN.md section 5).

mod configs;
mod copyvec;
mod elem;
mod generate;
mod interp;
mod iters;
mod vecapi;

use sim::heap::{self, Policy};
use sim::runner::{Stats, Tier, World, main_for};
use sim::trace::{Trace, Violation};

struct CollWorld;

impl World for CollWorld {
    const NAME: &'static str = "coll";

    fn op_names() -> &'static [&'static str] {
        interp::OP_NAMES
    }

    fn props() -> &'static [&'static str] {
        &["C01", "C06", "C07", "C08", "C14", "C15", "C16", "ALL"]
    }

    fn generate(prop: &str, run_seed: u64, index: u64, tier: Tier) -> Trace {
        generate::generate(prop, run_seed, index, tier)
    }

    fn execute(trace: &Trace, stats: &mut Stats) -> Vec<Violation> {
        heap::with(0, |h| h.reset(trace.param_or("heap_seed", 1), Policy::from_u64(trace.param_or("policy", 0))));
        let setting = trace.param_or("setting", 0) % configs::N_SETTINGS;
        let slot = trace.param_or("elem", 0) % 3;
        let elem = configs::ELEMS_OF[setting as usize][slot as usize];
        elem::with(|l| l.reset(if elem == 1 { 250 } else { 100_000 }));
        let kind = trace.param_or("kind", 2) % 6;
        stats.sig_mix(setting * 64 + elem * 8 + kind);
        stats.bump(&format!("config.setting{setting}"));
        stats.bump(&format!("elem.{}", configs::ELEMS[elem as usize]));
        stats.bump(&format!("kind.{}", if kind == 5 { "Copy elements (u32)" } else { vecapi::KIND_NAMES[kind as usize] }));
        let mut ctx = interp::Ctx::new(trace, stats);
        configs::dispatch(setting, slot, &mut ctx);
        ctx.viols
    }
}

fn main() {
    main_for::<CollWorld>();
}
