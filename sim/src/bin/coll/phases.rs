//! Kind-specific drivers: which vectors exist, how they are created, split, merged, converted and finalised.
//! Compiled several times as separate modules (see configs.rs) to spread monomorphised code over codegen units.

use std::panic::{AssertUnwindSafe, catch_unwind};

use bump_scope::settings::BumpAllocatorSettings;
use bump_scope::traits::{BumpAllocatorCore, BumpAllocatorTypedScope, MutBumpAllocatorTypedScope};
use bump_scope::{BaseAllocator, Bump, BumpBox, BumpVec, FixedBumpVec, MutBumpVec, MutBumpVecRev};

use sim::heap;
use sim::runner::{Caught, classify_panic, harness_bug};
use sim::trace::Op;

use crate::elem::{self, Elem};
use crate::interp::*;
use crate::iters::{Hint, Scripted, take_id};
use crate::vecapi::*;

/// The claim guard of the arena, type-erased (C14).
pub trait ClaimedArena {
    fn allocated(&self) -> usize;
    fn chunks(&self) -> usize;
    fn try_alloc_bytes(&self, bytes: &[u8]) -> Option<*const u8>;
}

pub struct Noise {
    pub ptr: *const u8,
    pub len: usize,
    pub seed: u8,
}

fn noise_byte(seed: u8, i: usize) -> u8 {
    (seed as usize * 31 + i * 7) as u8 | 1
}

fn check_noise(ctx: &mut Ctx, noise: &[Noise]) {
    for (k, n) in noise.iter().enumerate() {
        for i in 0..n.len {
            if unsafe { n.ptr.add(i).read() } != noise_byte(n.seed, i) {
                if ctx.on.c01 {
                    ctx.viol("C01/neighbour-overwritten", format!("byte +{i} of an unrelated live allocation (#{k}, {} bytes) changed", n.len));
                }
                if ctx.on.c16 || ctx.on.c08 || ctx.on.c06 {
                    let class = if ctx.on.c16 { "C16/neighbour-overwritten" } else if ctx.on.c08 { "C08/neighbour-overwritten" } else { "C06/neighbour-overwritten" };
                    ctx.viol(class, format!("byte +{i} of an unrelated allocation (#{k}, {} bytes) changed", n.len));
                }
                return;
            }
        }
    }
}

fn add_noise<'b, B: BumpAllocatorTypedScope<'b>>(ctx: &mut Ctx, bump: &B, noise: &mut Vec<Noise>, op: &Op) {
    let len = 1 + op.a[0] as usize % 40;
    let seed = (op.a[1] % 250) as u8;
    let bytes: Vec<u8> = (0..len).map(|i| noise_byte(seed, i)).collect();
    heap::with(0, |h| h.begin_op(ctx.cur_op as u32 + 1, if op.fail_nth != 0 { Some(op.fail_nth) } else { None }, op.burst));
    let r = bump.try_alloc_slice_copy(&bytes);
    heap::with(0, |h| h.end_op());
    if let Ok(b) = r {
        let s = b.into_ref();
        noise.push(Noise { ptr: s.as_ptr(), len, seed });
    }
}

fn fresh_vals(ctx: &mut Ctx, n: usize) -> Vec<u32> {
    (0..n).map(|_| ctx.fresh_val()).collect()
}

fn ids_budget_ok(extra: usize) -> bool {
    elem::with(|l| l.ids_left()) > extra + 80
}

/// All vectors and their models must agree; ids must be live and globally distinct (sibling independence, C16).
fn verify_all<E: Elem, V: VecApi<E>>(ctx: &mut Ctx, vs: &[V], ms: &[Vec<u32>], noise: &[Noise], what: &str) {
    check_noise(ctx, noise);
    let mut all_ids: Vec<u32> = Vec::new();
    for (i, (v, m)) in vs.iter().zip(ms.iter()).enumerate() {
        let got = vals_of(v.slice());
        if got != *m {
            if ctx.on.c16 {
                ctx.viol("C16/sibling-changed", format!("{what}: vector #{i} no longer matches its model ({} vs {} elements)", got.len(), m.len()));
            } else if ctx.on.c08 {
                ctx.viol("C08/contents-mismatch", format!("{what}: vector #{i} no longer matches its model ({} vs {} elements)", got.len(), m.len()));
                if ctx.on.c07 && ctx.had_failure {
                    ctx.viol("C07/contents-changed-after-failure", format!("{what}: after an allocation failure earlier in this run vector #{i} no longer matches its model ({} vs {} elements)", got.len(), m.len()));
                }
            }
        }
        if !E::ZST {
            all_ids.extend(ids_of(v.slice()));
        } else if V::KIND != VKind::Boxed && v.cap() != usize::MAX && ctx.on.c08 {
            ctx.viol("C08/zst-capacity", format!("{what}: a {} of zero-sized elements reports capacity {} instead of usize::MAX", KIND_NAMES[V::KIND as usize], v.cap()));
        }
    }
    if !E::ZST && ctx.on.c01 {
        // the buffers (including spare capacity) of all live collections are pairwise disjoint
        let mut bufs: Vec<(usize, usize)> = vs.iter().filter(|v| v.cap() > 0).map(|v| (v.data_ptr() as usize, v.data_ptr() as usize + v.cap() * std::mem::size_of::<E>())).collect();
        bufs.sort_unstable();
        for w in bufs.windows(2) {
            if w[0].1 > w[1].0 {
                ctx.viol("C01/collection-buffers-overlap", format!("{what}: the buffers of two live collections overlap ({} bytes)", w[0].1 - w[1].0));
                break;
            }
        }
        for nz in noise {
            let (a, b) = (nz.ptr as usize, nz.ptr as usize + nz.len);
            if bufs.iter().any(|&(s0, e0)| s0 < b && a < e0) {
                ctx.viol("C01/collection-buffers-overlap", format!("{what}: the buffer of a collection overlaps an unrelated live allocation"));
                break;
            }
        }
    }
    if !E::ZST && (ctx.on.c16 || ctx.on.c06) {
        let n = all_ids.len();
        all_ids.sort_unstable();
        all_ids.dedup();
        if all_ids.len() != n {
            ctx.viol(if ctx.on.c16 { "C16/element-in-two-parts" } else { "C06/element-in-two-collections" }, format!("{what}: an element is reachable through two collections"));
        }
        for id in all_ids {
            if !elem::with(|l| l.is_live(id)) {
                ctx.viol(if ctx.on.c16 { "C16/dead-element" } else { "C06/dead-element-in-collection" }, format!("{what}: element {id} in a collection is not live"));
                break;
            }
        }
    }
    ctx.drain_errors();
}

/// Creation of a BumpVec through one of its constructors. Returns None if creation failed (allocation refused).
fn new_bumpvec<'b, E: Elem, B: BumpAllocatorTypedScope<'b> + Clone>(ctx: &mut Ctx, bump: &B, op: &Op) -> Option<(BumpVec<E, B>, Vec<u32>, Promise)> {
    let n = op.a[1] as usize % 20;
    if !ids_budget_ok(n) {
        return None;
    }
    let try_ = !ctx.panicking_ok(op) || op.a[2] & 1 == 1;
    let how = op.a[0] % 6;
    let xs = fresh_vals(ctx, n);
    let b = bump.clone();
    let mut promise = Promise::default();
    let out = match how {
        0 => ctx.call(op, false, || Ok(BumpVec::new_in(b))),
        1 => {
            let r = ctx.call(op, false, || if try_ { BumpVec::try_with_capacity_in(n, b).map_err(drop) } else { Ok(BumpVec::with_capacity_in(n, b)) });
            if let Outcome::Ok(v) = &r {
                let v: &BumpVec<E, B> = v;
                promise = Promise { upto: n, ptr: v.as_ptr() as usize, active: n > 0 };
            }
            return finish_new(ctx, r, Vec::new(), promise);
        }
        2 => {
            let x = ctx.fresh_val();
            let e = E::new(x);
            let r = ctx.call(op, false, || if try_ { BumpVec::try_from_elem_in(e, n, b).map_err(drop) } else { Ok(BumpVec::from_elem_in(e, n, b)) });
            return finish_new(ctx, r, vec![x; n], promise);
        }
        3 => {
            let src: Vec<E> = xs.iter().map(|&x| E::new(x)).collect();
            let r = ctx.call(op, false, || if try_ { BumpVec::try_from_owned_slice_in(src, b).map_err(drop) } else { Ok(BumpVec::from_owned_slice_in(src, b)) });
            return finish_new(ctx, r, xs, promise);
        }
        4 => {
            let it = Scripted::<E>::new(xs.clone(), Hint::from(op.a[3]));
            let r = ctx.call(op, false, || if try_ { BumpVec::try_from_iter_in(it, b).map_err(drop) } else { Ok(BumpVec::from_iter_in(it, b)) });
            return finish_new(ctx, r, xs, promise);
        }
        _ => {
            let hint = Hint::from(op.a[3]);
            let it = Scripted::<E>::new(xs.clone(), hint);
            let claimed = it.len();
            let r = ctx.call(op, false, || if try_ { BumpVec::try_from_iter_exact_in(it, b).map_err(drop) } else { Ok(BumpVec::from_iter_exact_in(it, b)) });
            // a too-small `len()` truncates, a too-large one leaves spare capacity
            let take = if E::ZST { xs.len() } else { claimed.min(xs.len()) };
            return finish_new(ctx, r, xs[..take].to_vec(), promise);
        }
    };
    finish_new(ctx, out, Vec::new(), promise)
}

fn finish_new<T>(ctx: &mut Ctx, r: Outcome<T>, model: Vec<u32>, p: Promise) -> Option<(T, Vec<u32>, Promise)> {
    ctx.drain_errors();
    match r {
        Outcome::Ok(v) => Some((v, model, p)),
        Outcome::AllocFailed => {
            if ctx.refusals_in_op() > 0 {
                ctx.stats.probe("fault.op_failed_cleanly");
            } else {
                ctx.stats.bump("fail.without_refusal");
            }
            None
        }
        Outcome::Injected => {
            ctx.stats.probe("unwind.injected");
            None
        }
        Outcome::LibPanic(m) => {
            if ctx.on.c08 || ctx.on.c07 {
                ctx.viol(if ctx.on.c07 { "C07/constructor-unwound" } else { "C08/panic-mismatch" }, format!("a vector constructor panicked: {m}"));
            }
            None
        }
    }
}

fn check_created<E: Elem, V: VecApi<E>>(ctx: &mut Ctx, v: &V, m: &mut Vec<u32>, what: &str) {
    // element identity after creation: compare values; a constructor that unwound half-way never gets here
    compare(ctx, v, m, what);
}

// ------------------------------------------------------------------ BumpVec

pub fn drive_bumpvec<'b, 'c, E: Elem, B: BumpAllocatorTypedScope<'b> + Clone>(ctx: &mut Ctx, bump: &B, claimer: &'c dyn Fn() -> Box<dyn ClaimedArena + 'c>) {
    let mut vs: Vec<BumpVec<E, B>> = Vec::new();
    let mut ms: Vec<Vec<u32>> = Vec::new();
    let mut ps: Vec<Promise> = Vec::new();
    let mut boxes: Vec<BumpBox<'b, [E]>> = Vec::new();
    let mut mboxes: Vec<Vec<u32>> = Vec::new();
    let mut noise: Vec<Noise> = Vec::new();
    let mut guard: Option<Box<dyn ClaimedArena + 'c>> = None;
    let mut guard_mem = (0usize, 0usize);

    while let Some(op) = ctx.next_op() {
        let what = OP_NAMES[op.kind as usize];
        if ctx.verbose {
            eprintln!("[{}] {} | vecs {:?} boxes {:?}", ctx.cur_op, sim::trace::op_text(&op, OP_NAMES), ms.iter().map(|m| m.len()).collect::<Vec<_>>(), mboxes.iter().map(|m| m.len()).collect::<Vec<_>>());
        }
        match op.kind {
            K_CLAIM_OPS => {
                // toggle: claim the arena the vectors live in / end the claim
                if guard.is_none() {
                    let g = claimer();
                    guard_mem = (g.allocated(), g.chunks());
                    guard = Some(g);
                    ctx.claimed = true;
                    ctx.stats.probe("claim.begin");
                } else {
                    guard = None;
                    ctx.claimed = false;
                    ctx.stats.probe("claim.end");
                }
            }
            K_NOISE if guard.is_some() => {
                // the guard keeps allocating while the vectors' handle is inert
                let g = guard.as_ref().unwrap();
                let len = 1 + op.a[0] as usize % 40;
                let seed = (op.a[1] % 250) as u8;
                let bytes: Vec<u8> = (0..len).map(|i| noise_byte(seed, i)).collect();
                heap::with(0, |h| h.begin_op(ctx.cur_op as u32 + 1, if op.fail_nth != 0 { Some(op.fail_nth) } else { None }, op.burst));
                let r = g.try_alloc_bytes(&bytes);
                heap::with(0, |h| h.end_op());
                if let Some(ptr) = r {
                    noise.push(Noise { ptr, len, seed });
                    ctx.stats.probe("claim.guard_allocated");
                }
                guard_mem = (g.allocated(), g.chunks());
            }
            K_NEW => {
                if vs.len() < 4 {
                    if let Some((v, mut m, p)) = new_bumpvec::<E, B>(ctx, bump, &op) {
                        check_created(ctx, &v, &mut m, "constructor");
                        vs.push(v);
                        ms.push(m);
                        ps.push(p);
                    }
                }
            }
            K_NOISE => add_noise(ctx, bump, &mut noise, &op),
            _ if vs.is_empty() => {
                if let Some((v, m, p)) = new_bumpvec::<E, B>(ctx, bump, &Op::new(K_NEW, &[0])) {
                    vs.push(v);
                    ms.push(m);
                    ps.push(p);
                }
            }
            k if k <= LAST_COMMON => {
                let t = op.a[4] as usize % vs.len();
                exec_common(ctx, &mut vs[t], &mut ms[t], &mut ps[t], &op);
            }
            K_DROP => {
                let t = op.a[0] as usize % vs.len();
                let v = vs.swap_remove(t);
                ms.swap_remove(t);
                ps.swap_remove(t);
                let _ = ctx.call(&op, op.a[5] & 1 == 1, || Ok(drop(v)));
            }
            K_SPLIT_OFF => {
                let t = op.a[2] as usize % vs.len();
                if vs.len() >= 4 {
                    continue;
                }
                let len = ms[t].len();
                let cap_before = vs[t].capacity();
                let (r, valid) = range_arg(op.a[0], op.a[1], len);
                let out = ctx.call(&op, false, || Ok(vs[t].split_off(r)));
                ps[t].active = false;
                match out {
                    Outcome::Ok(part) => match valid {
                        Some((s, e)) => {
                            let pm: Vec<u32> = ms[t].drain(s..e).collect();
                            if ctx.on.c16 || ctx.on.c08 {
                                let class = if ctx.on.c16 { "C16/split-contents" } else { "C08/split-contents" };
                                if vals_of(&part) != pm || vals_of(&vs[t]) != ms[t] {
                                    ctx.viol(class, format!("split_off({s}..{e}) of {len} elements: parts do not hold the expected elements in order"));
                                }
                                if !E::ZST && ctx.on.c16 && part.capacity() + vs[t].capacity() != cap_before {
                                    ctx.viol("C16/split-capacity", format!("split_off({s}..{e}): capacities {} + {} != original {cap_before}", vs[t].capacity(), part.capacity()));
                                }
                            }
                            ctx.stats.probe("c16.split_off");
                            vs.push(part);
                            ms.push(pm);
                            ps.push(Promise::default());
                        }
                        None => {
                            if ctx.on.c16 || ctx.on.c08 {
                                ctx.viol(if ctx.on.c16 { "C16/split-accepted-bad-range" } else { "C08/panic-mismatch" }, format!("split_off with an invalid range on {len} elements returned"));
                            }
                            vs.push(part);
                            ms.push(Vec::new());
                            ps.push(Promise::default());
                            let m = vals_of(&vs[t]);
                            ms[t] = m;
                        }
                    },
                    Outcome::LibPanic(msg) => {
                        if valid.is_some() && (ctx.on.c16 || ctx.on.c08) {
                            ctx.viol(if ctx.on.c16 { "C16/split-rejected-good-range" } else { "C08/panic-mismatch" }, format!("split_off with a valid range panicked: {msg}"));
                        }
                    }
                    _ => {}
                }
            }
            K_MERGE_BACK => {
                // append one vector to another (ownership hand-over of all elements)
                if vs.len() < 2 {
                    continue;
                }
                let a = op.a[0] as usize % vs.len();
                let mut b = op.a[1] as usize % vs.len();
                if a == b {
                    b = (b + 1) % vs.len();
                }
                let src = vs.swap_remove(b);
                let srcm = ms.swap_remove(b);
                ps.swap_remove(b);
                let a = if a == vs.len() { b } else { a };
                let try_ = !ctx.panicking_ok(&op) || op.a[2] & 1 == 1;
                let out = ctx.call(&op, false, || if try_ { vs[a].try_append(src).map_err(drop) } else { Ok(vs[a].append(src)) });
                match out {
                    Outcome::Ok(()) => {
                        ms[a].extend_from_slice(&srcm);
                        ctx.stats.probe("append.other_vector");
                    }
                    Outcome::AllocFailed => ctx.stats.probe("fault.op_failed_cleanly"),
                    Outcome::Injected => resync(ctx, &vs[a], &mut ms[a]),
                    Outcome::LibPanic(m) => ctx.viol("C08/panic-mismatch", format!("append of another vector panicked: {m}")),
                }
                ps[a].active = false;
            }
            K_INTO_BOX => {
                let t = op.a[0] as usize % vs.len();
                let v = vs.swap_remove(t);
                let m = ms.swap_remove(t);
                ps.swap_remove(t);
                let out = ctx.call(&op, false, || {
                    Ok(match op.a[1] % 3 {
                        0 => v.into_boxed_slice(),
                        1 => v.into_fixed_vec().into_boxed_slice(),
                        _ => {
                            let (fixed, alloc) = v.into_parts();
                            BumpVec::from_parts(fixed, alloc).into_boxed_slice()
                        }
                    })
                });
                if let Outcome::Ok(b) = out {
                    if (ctx.on.c08 || ctx.on.c16) && vals_of(&b) != m {
                        ctx.viol(if ctx.on.c16 { "C16/conversion-contents" } else { "C08/conversion-contents" }, "into_boxed_slice changed the contents".into());
                    }
                    if boxes.len() < 4 {
                        boxes.push(b);
                        mboxes.push(m);
                    }
                }
            }
            K_FLATTEN => {
                // into_flattened (C16): a vector of arrays becomes a vector of elements, same elements, same order,
                // capacity = array length x old capacity
                let t = op.a[0] as usize % vs.len();
                if !ids_budget_ok(4) {
                    continue;
                }
                if op.a[1] % 3 == 0 {
                    // arrays of length zero of a sized element type: nothing to hold, capacity 0 (not "unlimited")
                    let k = 1 + op.a[2] as usize % 5;
                    let n = op.a[3] as usize % (k + 1);
                    let out = ctx.call(&op, false, || {
                        let mut z = BumpVec::<[E; 0], B>::try_with_capacity_in(k, bump.clone()).map_err(drop)?;
                        for _ in 0..n {
                            z.try_push([]).map_err(drop)?;
                        }
                        let flat = z.into_flattened();
                        let r = (flat.len(), flat.capacity());
                        // it holds no elements; not running its destructor keeps a wrong capacity from being acted on
                        std::mem::forget(flat);
                        Ok(r)
                    });
                    if let Outcome::Ok((len, cap)) = out {
                        let want = if E::ZST { usize::MAX } else { 0 };
                        if (ctx.on.c16 || ctx.on.c08) && (len != 0 || cap != want) {
                            ctx.viol(if ctx.on.c16 { "C16/flatten-capacity" } else { "C08/flatten-capacity" }, format!("into_flattened of {n} zero-length arrays (capacity {k}): len {len}, capacity {cap} (expected 0 and {want})"));
                        }
                        ctx.stats.probe("c16.flatten_zero_length_arrays");
                    }
                    continue;
                }
                let v = vs.swap_remove(t);
                let m = ms.swap_remove(t);
                ps.swap_remove(t);
                let spare = op.a[2] as usize % 3;
                let k = m.len() / 2 + spare;
                let out = ctx.call(&op, false, || {
                    let mut pairs = BumpVec::<[E; 2], B>::try_with_capacity_in(k, bump.clone()).map_err(drop)?;
                    let mut it = v.into_iter();
                    while let Some(a) = it.next() {
                        match it.next() {
                            Some(b) => pairs.try_push([a, b]).map_err(drop)?,
                            None => drop(a),
                        }
                    }
                    let cap2 = pairs.capacity();
                    Ok((pairs.into_flattened(), cap2))
                });
                if let Outcome::Ok((flat, cap2)) = out {
                    let m2: Vec<u32> = m[..m.len() / 2 * 2].to_vec();
                    if ctx.on.c16 || ctx.on.c08 {
                        let class = if ctx.on.c16 { "C16/flatten-contents" } else { "C08/conversion-contents" };
                        if vals_of(&flat) != m2 {
                            ctx.viol(class, format!("into_flattened of {} pairs: elements or order changed", m2.len() / 2));
                        }
                        if !E::ZST && flat.capacity() != cap2 * 2 {
                            ctx.viol(if ctx.on.c16 { "C16/flatten-capacity" } else { "C08/flatten-capacity" }, format!("into_flattened: capacity {} of pairs became {} elements", cap2, flat.capacity()));
                        }
                    }
                    ctx.stats.probe("c16.flatten");
                    vs.push(flat);
                        ms.push(m2);
                        ps.push(Promise::default());
                }
            }
            K_CLONE => {
                // BumpVec::clone / IntoIter::clone (both go through FixedBumpVec::from_init)
                let t = op.a[0] as usize % vs.len();
                // `clone` only exists in the panicking form
                if vs.len() >= 4 || !ids_budget_ok(3 * ms[t].len() + 2) || !ctx.panicking_ok(&op) {
                    continue;
                }
                let via_iter = op.a[1] & 1 == 1;
                let src = &vs[t];
                let out = ctx.call(&op, false, || {
                    if via_iter {
                        let it = src.clone().into_iter();
                        let it2 = it.clone();
                        drop(it);
                        let b = src.allocator().clone();
                        Ok(BumpVec::from_iter_in(it2, b))
                    } else {
                        Ok(src.clone())
                    }
                });
                match out {
                    Outcome::Ok(c) => {
                        let mut m = ms[t].clone();
                        compare(ctx, &c, &mut m, "clone");
                        ctx.stats.probe("convert.clone");
                        vs.push(c);
                        ms.push(m);
                        ps.push(Promise::default());
                    }
                    Outcome::LibPanic(msg) => {
                        if ctx.on.c08 && !ctx.claimed {
                            ctx.viol("C08/panic-mismatch", format!("clone panicked: {msg}"));
                        }
                    }
                    _ => {}
                }
            }
            K_INTO_ITER => {
                let t = op.a[0] as usize % vs.len();
                let v = vs.swap_remove(t);
                let m = ms.swap_remove(t);
                ps.swap_remove(t);
                let (f, bk) = (op.a[1] as usize % 6, op.a[2] as usize % 4);
                let out = ctx.call(&op, op.a[5] & 1 == 1, || {
                    let mut it = v.into_iter();
                    let mut got = Vec::new();
                    for _ in 0..f {
                        match it.next() {
                            Some(e) => got.push(take_id(e)),
                            None => break,
                        }
                    }
                    for _ in 0..bk {
                        match it.next_back() {
                            Some(e) => got.push(take_id(e)),
                            None => break,
                        }
                    }
                    drop(it);
                    Ok(got)
                });
                if let Outcome::Ok(ids) = out {
                    let n = m.len();
                    let ff = f.min(n);
                    let bb = bk.min(n - ff);
                    let mut exp: Vec<u32> = m[..ff].to_vec();
                    exp.extend(m[n - bb..].iter().rev());
                    let got: Vec<u32> = ids.iter().map(|&id| elem::with(|l| l.value_of(id))).collect();
                    if ctx.on.c08 && !E::ZST && got != exp {
                        ctx.viol("C08/into-iter-yield", format!("into_iter yielded {got:?}, expected {exp:?}"));
                    }
                }
            }
            K_MAP | K_MAP_IN_PLACE => {
                let t = op.a[0] as usize % vs.len();
                let v = vs.swap_remove(t);
                let m = ms.swap_remove(t);
                ps.swap_remove(t);
                if !ids_budget_ok(m.len()) {
                    vs.push(v);
                    ms.push(m);
                    ps.push(Promise::default());
                    continue;
                }
                let try_ = !ctx.panicking_ok(&op);
                let in_place = op.kind == K_MAP_IN_PLACE;
                let out = ctx.call(&op, op.a[5] & 1 == 1, || {
                    let f = |e: E| {
                        elem::tick();
                        let x = e.val();
                        drop(e);
                        E::new(x + 1000)
                    };
                    if in_place {
                        Ok(v.map_in_place(f))
                    } else if try_ {
                        v.try_map(f).map_err(drop)
                    } else {
                        Ok(v.map(f))
                    }
                });
                match out {
                    Outcome::Ok(nv) => {
                        let nm: Vec<u32> = m.iter().map(|x| if E::ZST { 0 } else { x + 1000 }).collect();
                        if ctx.on.c08 && vals_of(&nv) != nm {
                            ctx.viol("C08/map-contents", "map produced the wrong elements".into());
                        }
                        vs.push(nv);
                        ms.push(nm);
                        ps.push(Promise::default());
                    }
                    Outcome::AllocFailed => ctx.stats.probe("fault.op_failed_cleanly"),
                    Outcome::Injected => ctx.stats.probe("unwind.injected"),
                    Outcome::LibPanic(msg) => ctx.viol("C08/panic-mismatch", format!("map panicked: {msg}")),
                }
            }
            K_SPLICE => {
                let t = op.a[4] as usize % vs.len();
                if !ctx.panicking_ok(&op) || !ids_budget_ok(16) {
                    continue; // splice only exists in the panicking form
                }
                let len = ms[t].len();
                let (r, valid) = range_arg(op.a[0], op.a[1], len);
                let n = op.a[2] as usize % 8;
                let xs = fresh_vals(ctx, n);
                let it = Scripted::<E>::new(xs.clone(), Hint::from(op.a[3]));
                let take = op.a[3] as usize / 8 % 4;
                let v = &mut vs[t];
                let out = ctx.call(&op, false, || {
                    let mut sp = v.splice(r, it);
                    let mut got = Vec::new();
                    for _ in 0..take {
                        match sp.next() {
                            Some(e) => got.push(take_id(e)),
                            None => break,
                        }
                    }
                    drop(sp);
                    Ok(got)
                });
                ps[t].active = false;
                match out {
                    Outcome::Ok(_) => match valid {
                        Some((s, e)) => {
                            ms[t].splice(s..e, xs);
                            compare(ctx, &vs[t], &ms[t], "splice");
                            ctx.stats.probe("op.splice_ok");
                        }
                        None => {
                            if ctx.on.c08 {
                                ctx.viol("C08/panic-mismatch", "splice with an invalid range returned".into());
                            }
                            resync(ctx, &vs[t], &mut ms[t]);
                        }
                    },
                    Outcome::LibPanic(msg) => {
                        if valid.is_some() && ctx.on.c08 {
                            ctx.viol("C08/panic-mismatch", format!("splice with a valid range panicked: {msg}"));
                        }
                        resync(ctx, &vs[t], &mut ms[t]);
                    }
                    _ => resync(ctx, &vs[t], &mut ms[t]),
                }
            }
            K_PART_OP => {
                // operations on finished boxes while vectors are alive (shrink family only)
                if boxes.is_empty() {
                    continue;
                }
                let t = op.a[4] as usize % boxes.len();
                let mut sub = op.clone();
                sub.kind = [K_POP, K_REMOVE, K_SWAP_REMOVE, K_TRUNCATE, K_RETAIN, K_DRAIN, K_CLEAR, K_DEDUP_KEY][op.a[3] as usize % 8];
                let mut p = Promise::default();
                exec_common(ctx, &mut boxes[t], &mut mboxes[t], &mut p, &sub);
            }
            _ => {}
        }
        if let Some(g) = &guard {
            let now = (g.allocated(), g.chunks());
            if now != guard_mem {
                if ctx.on.c14 {
                    ctx.viol("C14/claimed-handle-changed-arena", format!("{what} through the claimed original handle changed the arena: allocated/chunks {guard_mem:?} -> {now:?}"));
                }
                guard_mem = now;
            }
        }
        verify_all(ctx, &vs, &ms, &noise, what);
        verify_all(ctx, &boxes, &mboxes, &[], what);
    }
    if guard.is_some() && ctx.trace.seed & 1 == 0 {
        // half of the runs end the claim before the vectors go away
        guard = None;
        ctx.claimed = false;
    }
    drop(vs);
    drop(boxes);
    drop(guard);
    ctx.claimed = false;
    ctx.drain_errors();
}

// ------------------------------------------------------------------ FixedBumpVec and BumpBox<[T]>

fn new_fixed<'b, E: Elem, B: BumpAllocatorTypedScope<'b>>(ctx: &mut Ctx, bump: &B, op: &Op) -> Option<(FixedBumpVec<'b, E>, Vec<u32>)> {
    let cap = op.a[1] as usize % 24;
    let n = (op.a[2] as usize % 24).min(cap);
    if !ids_budget_ok(n) {
        return None;
    }
    let try_ = !ctx.panicking_ok(op) || op.a[3] & 1 == 1;
    let xs = fresh_vals(ctx, n);
    match op.a[0] % 3 {
        0 if (op.a[0] / 3) % 2 == 1 => {
            // `from_uninit`: an uninitialised slice becomes the (empty) vector's whole capacity
            let r = ctx.call(op, false, || {
                let u = if try_ { bump.try_alloc_uninit_slice::<E>(cap).map_err(drop)? } else { bump.alloc_uninit_slice::<E>(cap) };
                Ok(FixedBumpVec::from_uninit(u))
            });
            let r = finish_new(ctx, r, Vec::new(), Promise::default()).map(|(v, m, _)| (v, m));
            if let Some((v, _)) = &r {
                ctx.stats.probe("fixed.from_uninit");
                if ctx.on.c08 && !E::ZST && (v.capacity() != cap || v.len() != 0) {
                    ctx.viol("C08/from-uninit-capacity", format!("FixedBumpVec::from_uninit of {cap} slots: len {} capacity {}", v.len(), v.capacity()));
                }
            }
            r
        }
        0 => {
            let r = ctx.call(op, false, || if try_ { FixedBumpVec::try_with_capacity_in(cap, bump).map_err(drop) } else { Ok(FixedBumpVec::with_capacity_in(cap, bump)) });
            finish_new(ctx, r, Vec::new(), Promise::default()).map(|(v, m, _)| (v, m))
        }
        1 => {
            let it = Scripted::<E>::new(xs.clone(), Hint::from(op.a[4]));
            let r = ctx.call(op, false, || if try_ { FixedBumpVec::try_from_iter_in(it, bump).map_err(drop) } else { Ok(FixedBumpVec::from_iter_in(it, bump)) });
            finish_new(ctx, r, xs, Promise::default()).map(|(v, m, _)| (v, m))
        }
        _ => {
            let it = Scripted::<E>::new(xs.clone(), Hint::Exact);
            let r = ctx.call(op, false, || if try_ { FixedBumpVec::try_from_iter_exact_in(it, bump).map_err(drop) } else { Ok(FixedBumpVec::from_iter_exact_in(it, bump)) });
            finish_new(ctx, r, xs, Promise::default()).map(|(v, m, _)| (v, m))
        }
    }
}

pub fn drive_fixed<'b, E: Elem, B: BumpAllocatorTypedScope<'b> + Clone>(ctx: &mut Ctx, bump: &B) {
    let mut vs: Vec<FixedBumpVec<'b, E>> = Vec::new();
    let mut ms: Vec<Vec<u32>> = Vec::new();
    let mut noise: Vec<Noise> = Vec::new();
    while let Some(op) = ctx.next_op() {
        let what = OP_NAMES[op.kind as usize];
        if ctx.verbose {
            eprintln!("[{}] {} | fixed {:?}", ctx.cur_op, sim::trace::op_text(&op, OP_NAMES), vs.iter().map(|v| (v.len(), v.capacity())).collect::<Vec<_>>());
        }
        match op.kind {
            K_NEW => {
                if vs.len() < 4 {
                    if let Some((v, mut m)) = new_fixed::<E, B>(ctx, bump, &op) {
                        check_created(ctx, &v, &mut m, "constructor");
                        vs.push(v);
                        ms.push(m);
                    }
                }
            }
            K_NOISE => add_noise(ctx, bump, &mut noise, &op),
            _ if vs.is_empty() => {
                if let Some((v, m)) = new_fixed::<E, B>(ctx, bump, &Op::new(K_NEW, &[0, 9])) {
                    vs.push(v);
                    ms.push(m);
                }
            }
            k if k <= LAST_COMMON => {
                let t = op.a[4] as usize % vs.len();
                let mut p = Promise::default();
                exec_common(ctx, &mut vs[t], &mut ms[t], &mut p, &op);
            }
            K_DROP => {
                let t = op.a[0] as usize % vs.len();
                let v = vs.swap_remove(t);
                ms.swap_remove(t);
                let _ = ctx.call(&op, op.a[5] & 1 == 1, || Ok(drop(v)));
            }
            K_SPLIT_OFF => {
                let t = op.a[2] as usize % vs.len();
                if vs.len() >= 4 {
                    continue;
                }
                let len = ms[t].len();
                let cap_before = vs[t].capacity();
                let (r, valid) = range_arg(op.a[0], op.a[1], len);
                let out = ctx.call(&op, false, || Ok(vs[t].split_off(r)));
                match out {
                    Outcome::Ok(part) => match valid {
                        Some((s, e)) => {
                            let pm: Vec<u32> = ms[t].drain(s..e).collect();
                            if ctx.on.c16 || ctx.on.c08 {
                                if vals_of(&part) != pm || vals_of(&vs[t]) != ms[t] {
                                    ctx.viol(if ctx.on.c16 { "C16/split-contents" } else { "C08/split-contents" }, format!("split_off({s}..{e}) of {len} elements: parts do not hold the expected elements in order"));
                                }
                                if !E::ZST && ctx.on.c16 && part.capacity() + vs[t].capacity() != cap_before {
                                    ctx.viol("C16/split-capacity", format!("split_off({s}..{e}): capacities {} + {} != original {cap_before}", vs[t].capacity(), part.capacity()));
                                }
                            }
                            ctx.stats.probe("c16.split_off");
                            vs.push(part);
                            ms.push(pm);
                        }
                        None => {
                            if ctx.on.c16 || ctx.on.c08 {
                                ctx.viol(if ctx.on.c16 { "C16/split-accepted-bad-range" } else { "C08/panic-mismatch" }, format!("split_off with an invalid range on {len} elements returned"));
                            }
                            drop(part);
                            let m = vals_of(&vs[t]);
                            ms[t] = m;
                        }
                    },
                    Outcome::LibPanic(msg) => {
                        if valid.is_some() && (ctx.on.c16 || ctx.on.c08) {
                            ctx.viol(if ctx.on.c16 { "C16/split-rejected-good-range" } else { "C08/panic-mismatch" }, format!("split_off with a valid range panicked: {msg}"));
                        }
                    }
                    _ => {}
                }
            }
            K_MERGE_BACK => {
                if vs.len() < 2 {
                    continue;
                }
                let a = op.a[0] as usize % vs.len();
                let mut b = op.a[1] as usize % vs.len();
                if a == b {
                    b = (b + 1) % vs.len();
                }
                let src = vs.swap_remove(b);
                let srcm = ms.swap_remove(b);
                let a = if a == vs.len() { b } else { a };
                let room = vs[a].capacity() - vs[a].len();
                let try_ = !ctx.panicking_ok(&op) || op.a[2] & 1 == 1;
                let fits = srcm.len() <= room || E::ZST;
                let out = ctx.call(&op, false, || if try_ { vs[a].try_append(src).map_err(drop) } else { Ok(vs[a].append(src)) });
                match out {
                    Outcome::Ok(()) => {
                        if !fits && ctx.on.c08 {
                            ctx.viol("C08/fixed-grew", "append succeeded on a fixed vector without room".into());
                        }
                        ms[a].extend_from_slice(&srcm);
                    }
                    Outcome::AllocFailed | Outcome::LibPanic(_) => {
                        if fits && ctx.on.c08 {
                            ctx.viol("C08/fixed-refused", "append failed on a fixed vector that has room".into());
                        }
                    }
                    Outcome::Injected => resync(ctx, &vs[a], &mut ms[a]),
                }
            }
            K_CONVERT => {
                // FixedBumpVec -> BumpVec (into_vec) -> grows -> back to fixed
                let t = op.a[0] as usize % vs.len();
                if !ids_budget_ok(8) {
                    continue;
                }
                let v = vs.swap_remove(t);
                let mut m = ms.swap_remove(t);
                let extra = op.a[1] as usize % 6;
                let xs = fresh_vals(ctx, extra);
                let b = bump.clone();
                let try_ = !ctx.panicking_ok(&op);
                let out = ctx.call(&op, false, || {
                    let mut bv: BumpVec<E, B> = v.into_vec(b);
                    for &x in &xs {
                        if try_ {
                            if bv.try_push(E::new(x)).is_err() {
                                break;
                            }
                        } else {
                            bv.push(E::new(x));
                        }
                    }
                    Ok(bv.into_fixed_vec())
                });
                if let Outcome::Ok(fv) = out {
                    let got = vals_of(&fv);
                    let pushed = got.len().saturating_sub(m.len());
                    if ctx.on.c08 && (got.len() < m.len() || got[..m.len()] != m[..] || pushed > xs.len() || got[m.len()..] != xs[..pushed] || (!try_ && pushed != xs.len())) {
                        ctx.viol("C08/conversion-contents", format!("into_vec + {} pushes + into_fixed_vec: {} elements that are not the old {} + a prefix of the pushed ones", xs.len(), got.len(), m.len()));
                    }
                    m = got;
                    ctx.stats.probe("convert.fixed_vec_roundtrip");
                    vs.push(fv);
                    ms.push(m);
                }
            }
            K_SPLIT_SPARE => {
                // split_at_spare (C16): initialised part + spare part, adjacent; filling the spare part and merging
                // the two gives back one box with all elements
                let t = op.a[0] as usize % vs.len();
                if E::ZST || !ids_budget_ok(30) {
                    continue;
                }
                let v = vs.swap_remove(t);
                let m = ms.swap_remove(t);
                let (len, cap) = (v.len(), v.capacity());
                let xs = fresh_vals(ctx, cap - len);
                let mut k = 0;
                let out = ctx.call(&op, false, || {
                    let (init, spare) = v.split_at_spare();
                    let shape = (init.len(), spare.len(), unsafe { init.as_ptr().add(init.len()) } as usize == spare.as_ptr() as usize);
                    let filled = spare.init_fill_with(|| {
                        k += 1;
                        E::new(xs[k - 1])
                    });
                    Ok((init.merge(filled), shape))
                });
                if let Outcome::Ok((whole, (ilen, slen, adjacent))) = out {
                    let mut m2 = m.clone();
                    m2.extend_from_slice(&xs);
                    if ctx.on.c16 || ctx.on.c08 {
                        if ilen != len || slen != cap - len || !adjacent {
                            ctx.viol(if ctx.on.c16 { "C16/split-spare-shape" } else { "C08/split-spare-shape" }, format!("split_at_spare of len {len} capacity {cap}: parts of {ilen} and {slen} elements, adjacent: {adjacent}"));
                        }
                        if vals_of(&whole) != m2 {
                            ctx.viol(if ctx.on.c16 { "C16/merge-contents" } else { "C08/conversion-contents" }, format!("split_at_spare + fill + merge: {} elements that are not the old {} + the {} new ones", whole.len(), len, cap - len));
                        }
                    }
                    ctx.stats.probe("c16.split_at_spare");
                    vs.push(FixedBumpVec::from_init(whole));
                    ms.push(m2);
                }
            }
            K_FLATTEN => {
                // into_flattened (C16): a vector of arrays becomes a vector of elements, same elements, same order,
                // capacity = array length x old capacity
                let t = op.a[0] as usize % vs.len();
                if !ids_budget_ok(4) {
                    continue;
                }
                if op.a[1] % 3 == 0 {
                    // arrays of length zero of a sized element type: nothing to hold, capacity 0 (not "unlimited")
                    let k = 1 + op.a[2] as usize % 5;
                    let n = op.a[3] as usize % (k + 1);
                    let out = ctx.call(&op, false, || {
                        let mut z = FixedBumpVec::<[E; 0]>::try_with_capacity_in(k, bump).map_err(drop)?;
                        for _ in 0..n {
                            z.try_push([]).map_err(drop)?;
                        }
                        let flat = z.into_flattened();
                        let r = (flat.len(), flat.capacity());
                        // it holds no elements; not running its destructor keeps a wrong capacity from being acted on
                        std::mem::forget(flat);
                        Ok(r)
                    });
                    if let Outcome::Ok((len, cap)) = out {
                        let want = if E::ZST { usize::MAX } else { 0 };
                        if (ctx.on.c16 || ctx.on.c08) && (len != 0 || cap != want) {
                            ctx.viol(if ctx.on.c16 { "C16/flatten-capacity" } else { "C08/flatten-capacity" }, format!("into_flattened of {n} zero-length arrays (capacity {k}): len {len}, capacity {cap} (expected 0 and {want})"));
                        }
                        ctx.stats.probe("c16.flatten_zero_length_arrays");
                    }
                    continue;
                }
                let v = vs.swap_remove(t);
                let m = ms.swap_remove(t);
                let spare = op.a[2] as usize % 3;
                let k = m.len() / 2 + spare;
                let out = ctx.call(&op, false, || {
                    let mut pairs = FixedBumpVec::<[E; 2]>::try_with_capacity_in(k, bump).map_err(drop)?;
                    let mut it = v.into_iter();
                    while let Some(a) = it.next() {
                        match it.next() {
                            Some(b) => pairs.try_push([a, b]).map_err(drop)?,
                            None => drop(a),
                        }
                    }
                    let cap2 = pairs.capacity();
                    Ok((pairs.into_flattened(), cap2))
                });
                if let Outcome::Ok((flat, cap2)) = out {
                    let m2: Vec<u32> = m[..m.len() / 2 * 2].to_vec();
                    if ctx.on.c16 || ctx.on.c08 {
                        let class = if ctx.on.c16 { "C16/flatten-contents" } else { "C08/conversion-contents" };
                        if vals_of(&flat) != m2 {
                            ctx.viol(class, format!("into_flattened of {} pairs: elements or order changed", m2.len() / 2));
                        }
                        if !E::ZST && flat.capacity() != cap2 * 2 {
                            ctx.viol(if ctx.on.c16 { "C16/flatten-capacity" } else { "C08/flatten-capacity" }, format!("into_flattened: capacity {} of pairs became {} elements", cap2, flat.capacity()));
                        }
                    }
                    ctx.stats.probe("c16.flatten");
                    vs.push(flat);
                        ms.push(m2);
                }
            }
            K_CLONE => {
                // FixedBumpVec -> BumpBox<[T]> -> FixedBumpVec::from_init: a *full* fixed vector (zero-sized: unlimited)
                let t = op.a[0] as usize % vs.len();
                if !ids_budget_ok(4) {
                    continue;
                }
                let v = vs.swap_remove(t);
                let mut m = ms.swap_remove(t);
                let x = ctx.fresh_val();
                let out = ctx.call(&op, false, || {
                    let b = v.into_boxed_slice();
                    let mut f = FixedBumpVec::from_init(b);
                    let cap = f.capacity();
                    let full = f.is_full();
                    let pushed = f.try_push(E::new(x)).is_ok();
                    Ok((f, cap, full, pushed))
                });
                if let Outcome::Ok((f, cap, full, pushed)) = out {
                    if ctx.on.c08 {
                        if E::ZST && (cap != usize::MAX || full || !pushed) {
                            ctx.viol("C08/zst-capacity", format!("FixedBumpVec::from_init of zero-sized elements: capacity {cap}, is_full {full}, push accepted {pushed}"));
                        }
                        if !E::ZST && (cap != m.len() || !full || pushed) {
                            ctx.viol("C08/fixed-grew", format!("FixedBumpVec::from_init of {} elements: capacity {cap}, is_full {full}, push accepted {pushed}", m.len()));
                        }
                    }
                    if pushed {
                        m.push(x);
                    }
                    compare(ctx, &f, &mut m, "from_init");
                    ctx.stats.probe("convert.from_init");
                    vs.push(f);
                    ms.push(m);
                }
            }
            _ => {}
        }
        verify_all(ctx, &vs, &ms, &noise, what);
    }
    drop(vs);
    ctx.drain_errors();
}

fn new_box<'b, E: Elem, B: BumpAllocatorTypedScope<'b>>(ctx: &mut Ctx, bump: &B, op: &Op) -> Option<(BumpBox<'b, [E]>, Vec<u32>)> {
    let n = op.a[1] as usize % 24;
    if !ids_budget_ok(2 * n) {
        return None;
    }
    let try_ = !ctx.panicking_ok(op) || op.a[2] & 1 == 1;
    let xs = fresh_vals(ctx, n);
    // (decoding keeps the meaning of the replay files written before the `init_*` forms existed)
    let how = if (op.a[0] / 6) % 3 == 2 { 6 + (op.a[0] / 18) % 6 } else { op.a[0] % 6 };
    let r = match how {
        0 => {
            let it = Scripted::<E>::new(xs.clone(), Hint::from(op.a[3]));
            ctx.call(op, false, || if try_ { bump.try_alloc_iter(it).map_err(drop) } else { Ok(bump.alloc_iter(it)) })
        }
        11 => {
            // a single value in a `BumpBox<T>`: `alloc` / `alloc_with` (the closure may unwind), then `into_inner`
            // (the value leaves the arena and is dropped by the caller), plain drop, or `into_boxed_slice` (lives on as
            // a one-element slice)
            ctx.stats.probe("box.single");
            let x = ctx.fresh_val();
            let r: Outcome<BumpBox<'b, E>> = if (op.a[3] / 5) % 2 == 0 {
                let e = E::new(x);
                ctx.call(op, false, || if try_ { bump.try_alloc(e).map_err(drop) } else { Ok(bump.alloc(e)) })
            } else {
                let f = move || {
                    elem::tick();
                    E::new(x)
                };
                ctx.call(op, false, || if try_ { bump.try_alloc_with(f).map_err(drop) } else { Ok(bump.alloc_with(f)) })
            };
            let (b, _, _) = finish_new(ctx, r, vec![x], Promise::default())?;
            if (ctx.on.c08 || ctx.on.c06) && !E::ZST && b.val() != x {
                ctx.viol(if ctx.on.c08 { "C08/contents-mismatch" } else { "C06/access-dead" }, format!("alloc / alloc_with returned a box holding {} instead of {x}", b.val()));
            }
            return match (op.a[3] / 10) % 3 {
                0 => {
                    let v = b.into_inner();
                    let got = v.val();
                    let _ = ctx.call(op, false, || Ok(drop(v)));
                    if (ctx.on.c08 || ctx.on.c06) && !E::ZST && got != x {
                        ctx.viol(if ctx.on.c08 { "C08/return-value" } else { "C06/access-dead" }, format!("into_inner returned {got} instead of {x}"));
                    }
                    ctx.drain_errors();
                    None
                }
                1 => {
                    let _ = ctx.call(op, false, || Ok(drop(b)));
                    ctx.drain_errors();
                    None
                }
                _ => Some((b.into_boxed_slice(), vec![x])),
            };
        }
        6..=10 => {
            // `alloc_uninit_slice` + one of the slice initialisers (src/bump_box/slice_initializer.rs, C06): a panicking
            // `Clone` / closure / iterator in the middle must drop exactly the elements made so far
            ctx.stats.probe("box.uninit_init");
            // length of the uninitialised slice relative to the number of source items
            let m = match (op.a[3] / 7) % 8 {
                0 if n > 0 => n - 1,
                1 => n + 1,
                _ => n,
            };
            macro_rules! uninit {
                () => {
                    if try_ {
                        match bump.try_alloc_uninit_slice::<E>(m) {
                            Ok(u) => u,
                            Err(_) => return Err(()),
                        }
                    } else {
                        bump.alloc_uninit_slice::<E>(m)
                    }
                };
            }
            let (r, model, expect_panic): (Outcome<BumpBox<'b, [E]>>, Vec<u32>, bool) = match how {
                6 => {
                    let x = ctx.fresh_val();
                    let e = E::new(x);
                    (ctx.call(op, false, || Ok(uninit!().init_fill(e))), vec![x; m], false)
                }
                7 => {
                    let mut i = 0;
                    let xs2: Vec<u32> = (0..m).map(|k| xs.get(k).copied().unwrap_or(if E::ZST { 0 } else { 1 })).collect();
                    let xs3 = xs2.clone();
                    let f = move || {
                        elem::tick();
                        i += 1;
                        E::new(xs3[i - 1])
                    };
                    (ctx.call(op, false, || Ok(uninit!().init_fill_with(f))), xs2, false)
                }
                8 => {
                    let it = Scripted::<E>::new(xs.clone(), Hint::from(op.a[3]));
                    // too few items: documented panic ("iterator ran out of items"); too many: the rest stays in the iterator
                    (ctx.call(op, false, || Ok(uninit!().init_fill_iter(it))), xs[..m.min(n)].to_vec(), m > n)
                }
                9 => {
                    let src: Vec<E> = xs.iter().map(|&x| E::new(x)).collect();
                    let r = ctx.call(op, false, || Ok(uninit!().init_clone(&src)));
                    drop(src);
                    (r, xs.clone(), m != n)
                }
                _ => {
                    let src: Vec<E> = xs.iter().map(|&x| E::new(x)).collect();
                    (ctx.call(op, false, || Ok(uninit!().init_move(src))), xs.clone(), m != n)
                }
            };
            if expect_panic {
                ctx.drain_errors();
                match r {
                    Outcome::LibPanic(_) => ctx.stats.probe("box.uninit_init.length_mismatch_panicked"),
                    Outcome::Ok(_) => {
                        if ctx.on.c08 || ctx.on.c06 {
                            ctx.viol(if ctx.on.c08 { "C08/panic-mismatch" } else { "C06/initialiser-accepted-wrong-length" }, format!("slice initialiser {how} filled {m} slots from {n} items without panicking"));
                        }
                    }
                    _ => {}
                }
                return None;
            }
            return finish_new(ctx, r, model, Promise::default()).map(|(v, m, _)| (v, m));
        }
        1 => {
            let hint = Hint::from(op.a[3]);
            let it = Scripted::<E>::new(xs.clone(), hint);
            let claimed = it.len();
            let r = ctx.call(op, false, || if try_ { bump.try_alloc_iter_exact(it).map_err(drop) } else { Ok(bump.alloc_iter_exact(it)) });
            let take = if E::ZST { xs.len() } else { claimed.min(xs.len()) };
            return finish_new(ctx, r, xs[..take].to_vec(), Promise::default()).map(|(v, m, _)| (v, m));
        }
        2 => {
            let src: Vec<E> = xs.iter().map(|&x| E::new(x)).collect();
            let r = ctx.call(op, false, || if try_ { bump.try_alloc_slice_clone(&src).map_err(drop) } else { Ok(bump.alloc_slice_clone(&src)) });
            drop(src);
            r
        }
        3 => {
            let mut i = 0;
            let xs2 = xs.clone();
            let f = move || {
                elem::tick();
                i += 1;
                E::new(xs2[i - 1])
            };
            ctx.call(op, false, || if try_ { bump.try_alloc_slice_fill_with(n, f).map_err(drop) } else { Ok(bump.alloc_slice_fill_with(n, f)) })
        }
        4 => {
            let src: Vec<E> = xs.iter().map(|&x| E::new(x)).collect();
            ctx.call(op, false, || if try_ { bump.try_alloc_slice_move(src).map_err(drop) } else { Ok(bump.alloc_slice_move(src)) })
        }
        _ => {
            let x = ctx.fresh_val();
            let e = E::new(x);
            let r = ctx.call(op, false, || if try_ { bump.try_alloc_slice_fill(n, e).map_err(drop) } else { Ok(bump.alloc_slice_fill(n, e)) });
            return finish_new(ctx, r, vec![x; n], Promise::default()).map(|(v, m, _)| (v, m));
        }
    };
    finish_new(ctx, r, xs, Promise::default()).map(|(v, m, _)| (v, m))
}

pub fn drive_box<'b, E: Elem, B: BumpAllocatorTypedScope<'b> + BumpAllocatorCore + Clone>(ctx: &mut Ctx, bump: &B) {
    let mut vs: Vec<BumpBox<'b, [E]>> = Vec::new();
    let mut ms: Vec<Vec<u32>> = Vec::new();
    let mut noise: Vec<Noise> = Vec::new();
    while let Some(op) = ctx.next_op() {
        let what = OP_NAMES[op.kind as usize];
        if ctx.verbose {
            eprintln!("[{}] {} | boxes {:?}", ctx.cur_op, sim::trace::op_text(&op, OP_NAMES), ms.iter().map(|m| m.len()).collect::<Vec<_>>());
        }
        match op.kind {
            K_NEW => {
                if vs.len() < 5 {
                    if let Some((v, mut m)) = new_box::<E, B>(ctx, bump, &op) {
                        check_created(ctx, &v, &mut m, "alloc_* constructor");
                        vs.push(v);
                        ms.push(m);
                    }
                }
            }
            K_NOISE => add_noise(ctx, bump, &mut noise, &op),
            _ if vs.is_empty() => {
                if let Some((v, m)) = new_box::<E, B>(ctx, bump, &Op::new(K_NEW, &[0, 7])) {
                    vs.push(v);
                    ms.push(m);
                }
            }
            k if k <= LAST_COMMON => {
                let t = op.a[4] as usize % vs.len();
                let mut p = Promise::default();
                exec_common(ctx, &mut vs[t], &mut ms[t], &mut p, &op);
            }
            K_DROP => {
                let t = op.a[0] as usize % vs.len();
                let v = vs.swap_remove(t);
                let m = ms.swap_remove(t);
                match op.a[1] % 4 {
                    0 | 1 => {
                        let _ = ctx.call(&op, op.a[5] & 1 == 1, || Ok(drop(v)));
                    }
                    2 => {
                        // `dealloc`: drops the elements and gives the memory back if it is the last allocation
                        let _ = ctx.call(&op, false, || Ok(bump.dealloc(v)));
                        ctx.stats.probe("box.dealloc");
                    }
                    _ => {
                        // explicit leak route
                        for e in v.iter() {
                            elem::with(|l| l.mark_leaked(e.id()));
                        }
                        if E::ZST {
                            elem::with(|l| {
                                l.zst_live -= m.len() as i64;
                                l.zst_leaked += m.len() as i64
                            });
                        }
                        let _ = BumpBox::leak(v);
                        ctx.stats.probe("leak.explicit");
                    }
                }
            }
            K_SPLIT_OFF => {
                let t = op.a[2] as usize % vs.len();
                if vs.len() >= 5 {
                    continue;
                }
                let len = ms[t].len();
                let (r, valid) = range_arg(op.a[0], op.a[1], len);
                let out = ctx.call(&op, false, || Ok(vs[t].split_off(r)));
                match out {
                    Outcome::Ok(part) => match valid {
                        Some((s, e)) => {
                            let pm: Vec<u32> = ms[t].drain(s..e).collect();
                            if (ctx.on.c16 || ctx.on.c08) && (vals_of(&part) != pm || vals_of(&vs[t]) != ms[t]) {
                                ctx.viol(if ctx.on.c16 { "C16/split-contents" } else { "C08/split-contents" }, format!("split_off({s}..{e}) of {len} elements: parts do not hold the expected elements in order"));
                            }
                            ctx.stats.probe("c16.split_off");
                            vs.push(part);
                            ms.push(pm);
                        }
                        None => {
                            if ctx.on.c16 || ctx.on.c08 {
                                ctx.viol(if ctx.on.c16 { "C16/split-accepted-bad-range" } else { "C08/panic-mismatch" }, format!("split_off with an invalid range on {len} elements returned"));
                            }
                            drop(part);
                            let m = vals_of(&vs[t]);
                            ms[t] = m;
                        }
                    },
                    Outcome::LibPanic(msg) => {
                        if valid.is_some() && (ctx.on.c16 || ctx.on.c08) {
                            ctx.viol(if ctx.on.c16 { "C16/split-rejected-good-range" } else { "C08/panic-mismatch" }, format!("split_off with a valid range panicked: {msg}"));
                        }
                    }
                    _ => {}
                }
            }
            K_SPLIT_AT => {
                // split_at / split_first / split_last / split_off_first / split_off_last, optionally merged again
                let t = op.a[0] as usize % vs.len();
                if vs.len() >= 5 {
                    continue;
                }
                let len = ms[t].len();
                match op.a[1] % 5 {
                    0 => {
                        let at = idx_arg(op.a[2], len);
                        let v = vs.swap_remove(t);
                        let m = ms.swap_remove(t);
                        let out = ctx.call(&op, false, || Ok(v.split_at(at)));
                        match out {
                            Outcome::Ok((l, r)) => {
                                if at > len {
                                    if ctx.on.c16 {
                                        ctx.viol("C16/split-accepted-bad-range", format!("split_at({at}) of {len} elements returned"));
                                    }
                                } else {
                                    let (lm, rm) = (m[..at].to_vec(), m[at..].to_vec());
                                    if ctx.on.c16 && (vals_of(&l) != lm || vals_of(&r) != rm) {
                                        ctx.viol("C16/split-contents", format!("split_at({at}) of {len} elements: wrong parts"));
                                    }
                                    ctx.stats.probe("c16.split_at");
                                    if op.a[3] % 3 == 0 {
                                        // merge of adjacent parts restores the whole
                                        let out = ctx.call(&op, false, || Ok(l.merge(r)));
                                        match out {
                                            Outcome::Ok(w) => {
                                                if ctx.on.c16 && vals_of(&w) != m {
                                                    ctx.viol("C16/merge-contents", "merge of adjacent parts did not restore the slice".into());
                                                }
                                                ctx.stats.probe("c16.merge_adjacent");
                                                vs.push(w);
                                                ms.push(m);
                                            }
                                            Outcome::LibPanic(msg) => {
                                                if ctx.on.c16 {
                                                    ctx.viol("C16/merge-rejected-adjacent", format!("merge of adjacent parts panicked: {msg}"));
                                                }
                                            }
                                            _ => {}
                                        }
                                    } else if op.a[3] % 3 == 1 && !E::ZST && !(lm.is_empty() && rm.is_empty()) {
                                        // wrong order: not adjacent (also when one of the two parts is empty) -> must be rejected by
                                        // an unwinding panic
                                        let out = ctx.call(&op, false, || Ok(r.merge(l)));
                                        match out {
                                            Outcome::Ok(w) => {
                                                if ctx.on.c16 {
                                                    ctx.viol("C16/merge-accepted-non-adjacent", "merge of non-adjacent parts returned".into());
                                                }
                                                let wm = vals_of(&w);
                                                vs.push(w);
                                                ms.push(wm);
                                            }
                                            Outcome::LibPanic(_) => ctx.stats.probe("c16.merge_non_adjacent_rejected"),
                                            _ => {}
                                        }
                                    } else {
                                        vs.push(l);
                                        ms.push(lm);
                                        vs.push(r);
                                        ms.push(rm);
                                    }
                                }
                            }
                            Outcome::LibPanic(msg) => {
                                if at <= len && ctx.on.c16 {
                                    ctx.viol("C16/split-rejected-good-range", format!("split_at({at}) of {len} elements panicked: {msg}"));
                                }
                            }
                            _ => {}
                        }
                    }
                    1 | 2 => {
                        let first = op.a[1] % 5 == 1;
                        let v = vs.swap_remove(t);
                        let m = ms.swap_remove(t);
                        let out = ctx.call(&op, false, || Ok(if first { v.split_first().map(|(a, b)| (a, b)) } else { v.split_last().map(|(a, b)| (a, b)) }));
                        if let Outcome::Ok(r) = out {
                            match r {
                                Some((one, rest)) => {
                                    let (om, rm) = if first { (m[0], m[1..].to_vec()) } else { (m[len - 1], m[..len - 1].to_vec()) };
                                    if ctx.on.c16 && (one.val() != om || vals_of(&rest) != rm) {
                                        ctx.viol("C16/split-contents", "split_first/split_last: wrong parts".into());
                                    }
                                    ctx.stats.probe("c16.split_first_last");
                                    drop(one);
                                    vs.push(rest);
                                    ms.push(rm);
                                }
                                None => {
                                    if len != 0 && ctx.on.c16 {
                                        ctx.viol("C16/split-contents", "split_first/split_last returned None for a non-empty slice".into());
                                    }
                                }
                            }
                        }
                    }
                    _ => {
                        let first = op.a[1] % 5 == 3;
                        let out = ctx.call(&op, false, || Ok(if first { vs[t].split_off_first() } else { vs[t].split_off_last() }));
                        if let Outcome::Ok(r) = out {
                            match r {
                                Some(one) => {
                                    let om = if first { ms[t].remove(0) } else { ms[t].pop().unwrap() };
                                    if ctx.on.c16 && one.val() != om {
                                        ctx.viol("C16/split-contents", "split_off_first/last: wrong element".into());
                                    }
                                    ctx.stats.probe("c16.split_off_first_last");
                                    drop(one);
                                }
                                None => {
                                    if len != 0 && ctx.on.c16 {
                                        ctx.viol("C16/split-contents", "split_off_first/last returned None for a non-empty slice".into());
                                    }
                                }
                            }
                        }
                    }
                }
            }
            K_PARTITION => {
                let t = op.a[0] as usize % vs.len();
                if vs.len() >= 5 {
                    continue;
                }
                let v = vs.swap_remove(t);
                let m = ms.swap_remove(t);
                let md = 2 + op.a[1] as u32 % 3;
                let out = ctx.call(&op, false, || {
                    Ok(v.partition(|e| {
                        elem::access(e.id(), "partition predicate");
                        elem::tick();
                        e.val() % md == 0
                    }))
                });
                match out {
                    Outcome::Ok((l, r)) => {
                        let (lm, rm) = (vals_of(&l), vals_of(&r));
                        if ctx.on.c16 {
                            let mut all: Vec<u32> = lm.iter().chain(rm.iter()).copied().collect();
                            let mut orig = m.clone();
                            all.sort_unstable();
                            orig.sort_unstable();
                            if all != orig || lm.iter().any(|x| x % md != 0) || rm.iter().any(|x| x % md == 0) {
                                ctx.viol("C16/partition-contents", format!("partition of {} elements: parts {} + {} are not an exact partition by the predicate", m.len(), lm.len(), rm.len()));
                            }
                        }
                        ctx.stats.probe("c16.partition");
                        vs.push(l);
                        ms.push(lm);
                        vs.push(r);
                        ms.push(rm);
                    }
                    Outcome::Injected => ctx.stats.probe("unwind.injected"),
                    _ => {}
                }
            }
            K_MAP_IN_PLACE => {
                let t = op.a[0] as usize % vs.len();
                let v = vs.swap_remove(t);
                let m = ms.swap_remove(t);
                if !ids_budget_ok(m.len()) {
                    vs.push(v);
                    ms.push(m);
                    continue;
                }
                let out = ctx.call(&op, op.a[5] & 1 == 1, || {
                    Ok(v.map_in_place(|e: E| {
                        elem::tick();
                        let x = e.val();
                        drop(e);
                        E::new(x + 1000)
                    }))
                });
                if let Outcome::Ok(nv) = out {
                    let nm: Vec<u32> = m.iter().map(|x| if E::ZST { 0 } else { x + 1000 }).collect();
                    if (ctx.on.c08 || ctx.on.c16) && vals_of(&nv) != nm {
                        ctx.viol(if ctx.on.c16 { "C16/map-contents" } else { "C08/map-contents" }, "map_in_place changed element count or order".into());
                    }
                    vs.push(nv);
                    ms.push(nm);
                }
            }
            K_INTO_ITER => {
                let t = op.a[0] as usize % vs.len();
                let v = vs.swap_remove(t);
                let m = ms.swap_remove(t);
                let (f, bk) = (op.a[1] as usize % 6, op.a[2] as usize % 4);
                let out = ctx.call(&op, op.a[5] & 1 == 1, || {
                    let mut it = v.into_iter();
                    let mut got = Vec::new();
                    for _ in 0..f {
                        match it.next() {
                            Some(e) => got.push(take_id(e)),
                            None => break,
                        }
                    }
                    for _ in 0..bk {
                        match it.next_back() {
                            Some(e) => got.push(take_id(e)),
                            None => break,
                        }
                    }
                    drop(it);
                    Ok(got)
                });
                if let Outcome::Ok(ids) = out {
                    let n = m.len();
                    let ff = f.min(n);
                    let bb = bk.min(n - ff);
                    let mut exp: Vec<u32> = m[..ff].to_vec();
                    exp.extend(m[n - bb..].iter().rev());
                    let got: Vec<u32> = ids.iter().map(|&id| elem::with(|l| l.value_of(id))).collect();
                    if ctx.on.c08 && !E::ZST && got != exp {
                        ctx.viol("C08/into-iter-yield", format!("into_iter yielded {got:?}, expected {exp:?}"));
                    }
                }
            }
            _ => {}
        }
        verify_all(ctx, &vs, &ms, &noise, what);
    }
    drop(vs);
    ctx.drain_errors();
}

// ------------------------------------------------------------------ MutBumpVec / MutBumpVecRev (C15)

/// Positions of all chunks (small to big) and the index of the current one.
fn positions<B: BumpAllocatorCore + ?Sized>(b: &B) -> (Vec<(usize, usize)>, Option<usize>, usize) {
    let st = b.any_stats();
    let chunks: Vec<(usize, usize)> = st.small_to_big().map(|c| (c.chunk_start().as_ptr() as usize, c.bump_position().as_ptr() as usize)).collect();
    let cur = st.current_chunk().map(|c| c.chunk_start().as_ptr() as usize);
    (chunks.clone(), cur.and_then(|s| chunks.iter().position(|c| c.0 == s)), st.allocated())
}

struct PosMark {
    chunks: Vec<(usize, usize)>,
    cur: Option<usize>,
}

fn check_positions(ctx: &mut Ctx, mark: &PosMark, now: &(Vec<(usize, usize)>, Option<usize>, usize), what: &str) {
    if !ctx.on.c15 {
        return;
    }
    // every chunk up to and including the original current chunk keeps its position
    let upto = mark.cur.map_or(0, |c| c + 1);
    for i in 0..upto {
        match now.0.get(i) {
            Some(c) if *c == mark.chunks[i] => {}
            _ => {
                ctx.viol("C15/position-moved", format!("{what}: the bump position of chunk #{i} changed while an exclusive-borrow collection was being filled or dropped"));
                return;
            }
        }
    }
    if now.1 != mark.cur {
        // a later chunk may have become current, but then nothing is allocated in it yet
        match (mark.cur, now.1) {
            (Some(a), Some(b)) if b > a => ctx.stats.probe("c15.moved_to_later_chunk"),
            (None, Some(_)) => ctx.stats.probe("c15.moved_to_later_chunk"),
            _ => ctx.viol("C15/current-chunk-went-back", format!("{what}: current chunk index went from {:?} to {:?}", mark.cur, now.1)),
        }
    }
}

/// The current chunk after the collection is gone without being finalised: if it is a later chunk it must be empty.
fn check_unfinalised<B: BumpAllocatorCore + ?Sized>(ctx: &mut Ctx, b: &B, mark: &PosMark, alloc_before: usize, what: &str) {
    let now = positions(b);
    check_positions(ctx, mark, &now, what);
    if !ctx.on.c15 {
        return;
    }
    let st = b.any_stats();
    if now.1 != mark.cur {
        if let Some(c) = st.current_chunk() {
            if c.allocated() != 0 {
                ctx.viol("C15/later-chunk-not-empty", format!("{what}: a later chunk became current and has {} bytes allocated", c.allocated()));
            }
        }
    } else if st.allocated() != alloc_before {
        ctx.viol("C15/position-moved", format!("{what}: allocated() went from {alloc_before} to {}", st.allocated()));
    }
}

/// What became of one exclusive-borrow vector.
pub enum Fin<E> {
    NotCreated,
    Dropped,
    Iterated,
    Boxed(std::ptr::NonNull<[E]>, Vec<u32>),
    Unwound,
}

macro_rules! drive_mut_impl {
    ($fname:ident, $one:ident, $Vec:ident, $rev:expr) => {
        /// Creates, fills and finalises one vector; the exclusive borrow of the arena ends when this returns.
        fn $one<'b, E: Elem, B: MutBumpAllocatorTypedScope<'b> + BumpAllocatorCore>(ctx: &mut Ctx, bump: &mut B, first: &Op, mark: &PosMark) -> Fin<E> {
            let n = first.a[1] as usize % 16;
            let try_ = !ctx.panicking_ok(first) || first.a[2] & 1 == 1;
            let xs = fresh_vals(ctx, n);
            let mut promise = Promise::default();
            let how = if first.kind == K_NEW { first.a[0] % 6 } else { 0 };
            let mut model: Vec<u32> = Vec::new();
            let created: Outcome<$Vec<E, &mut B>> = match how {
                0 => ctx.call(first, false, || Ok($Vec::new_in(&mut *bump))),
                1 => {
                    let r = ctx.call(first, false, || if try_ { $Vec::try_with_capacity_in(n, &mut *bump).map_err(drop) } else { Ok($Vec::with_capacity_in(n, &mut *bump)) });
                    if let Outcome::Ok(v) = &r {
                        promise = Promise { upto: n, ptr: VecApi::<E>::data_ptr(v), active: n > 0 };
                    }
                    r
                }
                2 => {
                    let x = ctx.fresh_val();
                    model = vec![x; n];
                    let e = E::new(x);
                    ctx.call(first, false, || if try_ { $Vec::try_from_elem_in(e, n, &mut *bump).map_err(drop) } else { Ok($Vec::from_elem_in(e, n, &mut *bump)) })
                }
                3 => {
                    model = xs.clone();
                    let src: Vec<E> = xs.iter().map(|&x| E::new(x)).collect();
                    ctx.call(first, false, || if try_ { $Vec::try_from_owned_slice_in(src, &mut *bump).map_err(drop) } else { Ok($Vec::from_owned_slice_in(src, &mut *bump)) })
                }
                4 => {
                    model = xs.clone();
                    if $rev {
                        model.reverse();
                    }
                    let hint = Hint::from(first.a[3]);
                    if hint != Hint::Exact {
                        ctx.stats.probe("iter.lying_size_hint");
                    }
                    let it = Scripted::<E>::new(xs.clone(), hint);
                    ctx.call(first, false, || if try_ { $Vec::try_from_iter_in(it, &mut *bump).map_err(drop) } else { Ok($Vec::from_iter_in(it, &mut *bump)) })
                }
                _ => {
                    let hint = Hint::from(first.a[3]);
                    let it = Scripted::<E>::new(xs.clone(), hint);
                    let take = if E::ZST { xs.len() } else { it.len().min(xs.len()) };
                    model = xs[..take].to_vec();
                    if $rev {
                        model.reverse();
                    }
                    ctx.call(first, false, || if try_ { $Vec::try_from_iter_exact_in(it, &mut *bump).map_err(drop) } else { Ok($Vec::from_iter_exact_in(it, &mut *bump)) })
                }
            };
            let mut v = match created {
                Outcome::Ok(v) => v,
                Outcome::AllocFailed => {
                    let _ = finish_new::<()>(ctx, Outcome::AllocFailed, Vec::new(), Promise::default());
                    return Fin::NotCreated;
                }
                Outcome::Injected => {
                    let _ = finish_new::<()>(ctx, Outcome::Injected, Vec::new(), Promise::default());
                    return Fin::NotCreated;
                }
                Outcome::LibPanic(m) => {
                    let _ = finish_new::<()>(ctx, Outcome::LibPanic(m), Vec::new(), Promise::default());
                    return Fin::NotCreated;
                }
            };
            ctx.drain_errors();
            if how == 5 && !E::ZST {
                // `from_iter_exact_in` uses `len()` only as a minimum capacity: an exclusive-borrow vector owns the rest
                // of the chunk, so with a lying `len()` it may take more than that many elements - any prefix
                // of at least min(len(), n) elements is fine, in order
                let got = vals_of(VecApi::<E>::slice(&v));
                let mut want = xs[..got.len().min(xs.len())].to_vec();
                if $rev {
                    want.reverse();
                }
                if ctx.on.c08 && (got.len() < model.len() || got.len() > xs.len() || got != want) {
                    ctx.viol("C08/contents-mismatch", format!("from_iter_exact_in: got {} elements which are not a prefix (>= {}) of the {} offered", got.len(), model.len(), xs.len()));
                }
                model = got;
            }
            compare(ctx, &v, &model, "constructor");
            check_positions(ctx, mark, &stats_of(&v), "constructor");

            // ---- fill it
            let mut finalize: Option<Op> = None;
            while let Some(op) = ctx.next_op() {
                if ctx.verbose {
                    eprintln!("[{}] {} | len {} cap {}", ctx.cur_op, sim::trace::op_text(&op, OP_NAMES), v.len(), if E::ZST { 0 } else { v.capacity() });
                }
                if op.kind <= LAST_COMMON {
                    exec_common(ctx, &mut v, &mut model, &mut promise, &op);
                    check_positions(ctx, mark, &stats_of(&v), OP_NAMES[op.kind as usize]);
                } else if matches!(op.kind, K_FINALIZE | K_DROP | K_INTO_BOX | K_INTO_ITER) {
                    finalize = Some(op);
                    break;
                }
            }
            // ---- finalise (or not)
            let fin = finalize.unwrap_or_else(|| Op::new(K_DROP, &[]));
            match fin.kind {
                K_DROP => {
                    let _ = ctx.call(&fin, fin.a[5] & 1 == 1, || Ok(drop(v)));
                    Fin::Dropped
                }
                K_INTO_ITER => {
                    let f = fin.a[1] as usize % 6;
                    let m2 = model.clone();
                    let out = ctx.call(&fin, fin.a[5] & 1 == 1, || {
                        let mut it = v.into_iter();
                        let mut got = Vec::new();
                        for _ in 0..f {
                            match it.next() {
                                Some(e) => got.push(take_id(e)),
                                None => break,
                            }
                        }
                        drop(it);
                        Ok(got)
                    });
                    if let Outcome::Ok(ids) = out {
                        let got: Vec<u32> = ids.iter().map(|&id| elem::with(|l| l.value_of(id))).collect();
                        let exp: Vec<u32> = m2.iter().take(f).copied().collect();
                        if ctx.on.c08 && !E::ZST && got != exp {
                            ctx.viol("C08/into-iter-yield", format!("into_iter yielded {got:?}, expected {exp:?}"));
                        }
                    }
                    Fin::Iterated
                }
                _ => {
                    let out = ctx.call(&fin, false, || Ok(v.into_boxed_slice().into_raw()));
                    match out {
                        Outcome::Ok(raw) => Fin::Boxed(raw, model),
                        Outcome::LibPanic(m) => {
                            // finalising never allocates: a panic here means the arena or the vector is in a bad state
                            let class = if ctx.on.c07 { "C07/finalise-panicked" } else if ctx.on.c15 { "C15/finalise-panicked" } else { "C08/finalise-panicked" };
                            if ctx.on.c07 || ctx.on.c15 || ctx.on.c08 {
                                ctx.viol(class, format!("into_boxed_slice panicked: {m}"));
                            }
                            Fin::Unwound
                        }
                        _ => Fin::Unwound,
                    }
                }
            }
        }

        pub fn $fname<'b, E: Elem, B: MutBumpAllocatorTypedScope<'b> + BumpAllocatorCore + TryWithMut>(ctx: &mut Ctx, bump: &mut B, min_align: usize) {
            let mut results: Vec<(std::ptr::NonNull<[E]>, Vec<u32>)> = Vec::new();
            let mut blobs: Vec<(*const u8, Vec<u8>)> = Vec::new();
            'outer: while let Some(first) = ctx.next_op() {
                let mark0 = positions(&*bump);
                let mark = PosMark { chunks: mark0.0.clone(), cur: mark0.1 };
                let alloc_before = mark0.2;
                if ctx.verbose {
                    eprintln!("[{}] create via {} | chunks {} cur {:?} allocated {}", ctx.cur_op, sim::trace::op_text(&first, OP_NAMES), mark.chunks.len(), mark.cur, alloc_before);
                }
                if first.kind == K_HELPER {
                    helper_op::<E, B>(ctx, bump, &first, &mark, alloc_before, min_align, &mut results);
                    continue;
                }
                if first.kind == K_TRY_WITH {
                    try_with_op::<B>(ctx, bump, &first, &mark, alloc_before, min_align, &mut blobs);
                    continue;
                }
                if first.kind == K_NOISE {
                    // leave a bigger chunk behind an ended scope, so that later growth finds a cached next chunk
                    let n = 64 << (first.a[0] % 6);
                    heap::with(0, |h| h.begin_op(ctx.cur_op as u32 + 1, if first.fail_nth != 0 { Some(first.fail_nth) } else { None }, first.burst));
                    bump.precache(n);
                    heap::with(0, |h| h.end_op());
                    ctx.stats.probe("arena.cached_later_chunk");
                    continue;
                }
                if !ids_budget_ok(2 * 16 + 40) {
                    continue;
                }
                let fin = $one::<E, B>(ctx, &mut *bump, &first, &mark);
                ctx.drain_errors();
                let esize = std::mem::size_of::<E>();
                let ealign = std::mem::align_of::<E>();
                match fin {
                    Fin::NotCreated => check_unfinalised(ctx, &*bump, &mark, alloc_before, "failed constructor"),
                    Fin::Dropped => {
                        check_unfinalised(ctx, &*bump, &mark, alloc_before, "drop without finalising");
                        ctx.stats.probe("c15.dropped_unfinalised");
                    }
                    Fin::Iterated => check_unfinalised(ctx, &*bump, &mark, alloc_before, "into_iter"),
                    Fin::Unwound => {}
                    Fin::Boxed(raw, model) => {
                        let len = model.len();
                        let s: &[E] = unsafe { raw.as_ref() };
                        if (ctx.on.c15 || ctx.on.c08) && vals_of(s) != model {
                            ctx.viol(if ctx.on.c15 { "C15/finalised-contents" } else { "C08/conversion-contents" }, format!("into_boxed_slice: contents differ from what was pushed ({} vs {} elements)", s.len(), model.len()));
                        }
                        // position advanced by at most size + element padding + minimum-alignment padding
                        let now = positions(&*bump);
                        if ctx.on.c15 && !E::ZST {
                            let bound = len * esize + (ealign - 1) + (min_align - 1);
                            if now.1 == mark.cur {
                                let delta = now.2 - alloc_before;
                                if delta > bound {
                                    ctx.viol("C15/finalise-wasted-space", format!("finalising {len} elements of {esize} bytes advanced allocated() by {delta} > {bound}"));
                                }
                                for i in 0..mark.cur.unwrap_or(0) {
                                    if now.0[i] != mark.chunks[i] {
                                        ctx.viol("C15/position-moved", format!("finalising changed the position of the older chunk #{i}"));
                                    }
                                }
                            } else {
                                let used = bump.any_stats().current_chunk().map_or(0, |c| c.allocated());
                                if used > bound {
                                    ctx.viol("C15/finalise-wasted-space", format!("finalising {len} elements of {esize} bytes in a fresh chunk left {used} > {bound} bytes allocated in it"));
                                }
                                check_positions(ctx, &mark, &now, "finalise");
                            }
                        } else if ctx.on.c15 && E::ZST && now.2 != alloc_before {
                            ctx.viol("C15/position-moved", "finalising a vector of zero-sized elements moved the bump position".into());
                        }
                        ctx.stats.probe("c15.finalised");
                        results.push((raw, model));
                    }
                }
                ctx.drain_errors();
                // earlier results must be intact
                for (raw, m) in &results {
                    let s: &[E] = unsafe { raw.as_ref() };
                    if vals_of(s) != *m && (ctx.on.c15 || ctx.on.c08 || ctx.on.c06) {
                        ctx.viol(if ctx.on.c15 { "C15/earlier-result-changed" } else { "C08/earlier-result-changed" }, "an earlier finalised slice changed".into());
                        break 'outer;
                    }
                }
            }
            for (raw, _) in results {
                drop(unsafe { BumpBox::<[E]>::from_raw(raw) });
            }
            ctx.drain_errors();
        }
    };
}

fn heap_calls_at(_m: &(Vec<(usize, usize)>, Option<usize>, usize)) -> u64 {
    heap::with(0, |h| h.n_alloc)
}

trait HasStats {
    fn stats_now(&self) -> (Vec<(usize, usize)>, Option<usize>, usize);
}

impl<'b, E, B: MutBumpAllocatorTypedScope<'b> + BumpAllocatorCore> HasStats for MutBumpVec<E, B> {
    fn stats_now(&self) -> (Vec<(usize, usize)>, Option<usize>, usize) {
        let st: bump_scope::stats::AnyStats = self.allocator_stats().into();
        any_positions(st)
    }
}

impl<'b, E, B: MutBumpAllocatorTypedScope<'b> + BumpAllocatorCore> HasStats for MutBumpVecRev<E, B> {
    fn stats_now(&self) -> (Vec<(usize, usize)>, Option<usize>, usize) {
        let st: bump_scope::stats::AnyStats = self.allocator_stats().into();
        any_positions(st)
    }
}

fn any_positions(st: bump_scope::stats::AnyStats<'_>) -> (Vec<(usize, usize)>, Option<usize>, usize) {
    let chunks: Vec<(usize, usize)> = st.small_to_big().map(|c| (c.chunk_start().as_ptr() as usize, c.bump_position().as_ptr() as usize)).collect();
    let cur = st.current_chunk().map(|c| c.chunk_start().as_ptr() as usize);
    (chunks.clone(), cur.and_then(|s| chunks.iter().position(|c| c.0 == s)), st.allocated())
}

fn stats_of<V: HasStats>(v: &V) -> (Vec<(usize, usize)>, Option<usize>, usize) {
    v.stats_now()
}

/// The `*_mut` allocation helpers: alloc_iter_mut, alloc_iter_mut_rev (C15).
fn helper_op<'b, E: Elem, B: MutBumpAllocatorTypedScope<'b> + BumpAllocatorCore>(
    ctx: &mut Ctx,
    bump: &mut B,
    op: &Op,
    mark: &PosMark,
    alloc_before: usize,
    min_align: usize,
    results: &mut Vec<(std::ptr::NonNull<[E]>, Vec<u32>)>,
) {
    let n = op.a[1] as usize % 30;
    if !ids_budget_ok(n + 10) {
        return;
    }
    let try_ = !ctx.panicking_ok(op) || op.a[2] & 1 == 1;
    let rev = op.a[0] & 1 == 1;
    let xs = fresh_vals(ctx, n);
    let hint = Hint::from(op.a[3]);
    if hint != Hint::Exact {
        ctx.stats.probe("iter.lying_size_hint");
    }
    let it = Scripted::<E>::new(xs.clone(), hint);
    let out = ctx.call(op, false, || {
        let b = if rev {
            if try_ { bump.try_alloc_iter_mut_rev(it).map_err(drop)? } else { bump.alloc_iter_mut_rev(it) }
        } else if try_ {
            bump.try_alloc_iter_mut(it).map_err(drop)?
        } else {
            bump.alloc_iter_mut(it)
        };
        Ok(b.into_raw())
    });
    ctx.drain_errors();
    let esize = std::mem::size_of::<E>();
    let ealign = std::mem::align_of::<E>();
    match out {
        Outcome::Ok(raw) => {
            let mut model = xs;
            if rev {
                model.reverse();
            }
            let s: &[E] = unsafe { raw.as_ref() };
            if (ctx.on.c15 || ctx.on.c08) && vals_of(s) != model {
                ctx.viol(if ctx.on.c15 { "C15/finalised-contents" } else { "C08/conversion-contents" }, format!("alloc_iter_mut{}: wrong contents ({} vs {} elements)", if rev { "_rev" } else { "" }, s.len(), model.len()));
            }
            let now = positions(&*bump);
            if ctx.on.c15 && !E::ZST {
                let bound = n * esize + (ealign - 1) + (min_align - 1);
                if now.1 == mark.cur {
                    let delta = now.2 - alloc_before;
                    if delta > bound {
                        ctx.viol("C15/finalise-wasted-space", format!("alloc_iter_mut of {n} elements of {esize} bytes advanced allocated() by {delta} > {bound}"));
                    }
                } else {
                    let used = bump.any_stats().current_chunk().map_or(0, |c| c.allocated());
                    if used > bound {
                        ctx.viol("C15/finalise-wasted-space", format!("alloc_iter_mut of {n} elements in a fresh chunk left {used} > {bound} bytes allocated in it"));
                    }
                    check_positions(ctx, mark, &now, "alloc_iter_mut");
                }
            }
            ctx.stats.probe("c15.helper_ok");
            results.push((raw, model));
        }
        Outcome::Injected | Outcome::AllocFailed => {
            check_unfinalised(ctx, &*bump, mark, alloc_before, "alloc_iter_mut that failed or unwound");
            ctx.stats.probe("c15.helper_unwound_or_failed");
        }
        Outcome::LibPanic(m) => {
            if ctx.on.c15 || ctx.on.c07 {
                ctx.viol(if ctx.on.c07 { "C07/try-method-unwound" } else { "C15/helper-panicked" }, format!("alloc_iter_mut panicked: {m}"));
            }
        }
    }
}

/// `alloc_try_with_mut` / `try_alloc_try_with_mut` (C15): the closure returns Ok, returns Err or unwinds; the value is
/// small or big enough to need another chunk.
pub trait TryWithMut {
    /// Ok(Ok(ptr)) value made, Ok(Err(e)) closure error, Err(()) allocation failed
    fn try_with_mut<T>(&mut self, try_: bool, f: impl FnOnce() -> Result<T, u32>) -> Result<Result<std::ptr::NonNull<T>, u32>, ()>;
    /// leaves a bigger chunk behind an ended scope, so that later growth finds a cached next chunk
    fn precache(&mut self, n: usize);
}

/// The trait-object carrier has neither `alloc_try_with_mut` nor `scoped`: both extras are no-ops there.
impl TryWithMut for &mut dyn bump_scope::traits::MutBumpAllocatorCoreScope<'_> {
    fn try_with_mut<T>(&mut self, _try: bool, _f: impl FnOnce() -> Result<T, u32>) -> Result<Result<std::ptr::NonNull<T>, u32>, ()> {
        Err(())
    }
    fn precache(&mut self, _n: usize) {}
}

impl<A: BaseAllocator<S::GuaranteedAllocated>, S: BumpAllocatorSettings> TryWithMut for &mut Bump<A, S> {
    fn try_with_mut<T>(&mut self, try_: bool, f: impl FnOnce() -> Result<T, u32>) -> Result<Result<std::ptr::NonNull<T>, u32>, ()> {
        let r = if try_ { self.try_alloc_try_with_mut(f).map_err(drop)? } else { self.alloc_try_with_mut(f) };
        Ok(r.map(|b| b.into_raw()))
    }
    fn precache(&mut self, n: usize) {
        self.scoped(|s| {
            let _ = s.try_alloc_slice_fill(n, 0xEEu8);
        });
    }
}

impl<A: BaseAllocator<S::GuaranteedAllocated>, S: BumpAllocatorSettings> TryWithMut for &mut bump_scope::BumpScope<'_, A, S> {
    fn try_with_mut<T>(&mut self, try_: bool, f: impl FnOnce() -> Result<T, u32>) -> Result<Result<std::ptr::NonNull<T>, u32>, ()> {
        let r = if try_ { self.try_alloc_try_with_mut(f).map_err(drop)? } else { self.alloc_try_with_mut(f) };
        Ok(r.map(|b| b.into_raw()))
    }
    fn precache(&mut self, n: usize) {
        self.scoped(|s| {
            let _ = s.try_alloc_slice_fill(n, 0xEEu8);
        });
    }
}

fn try_with_op<'b, B: MutBumpAllocatorTypedScope<'b> + BumpAllocatorCore + TryWithMut>(
    ctx: &mut Ctx,
    bump: &mut B,
    op: &Op,
    mark: &PosMark,
    alloc_before: usize,
    min_align: usize,
    blobs: &mut Vec<(*const u8, Vec<u8>)>,
) {
    fn go<'b, B: MutBumpAllocatorTypedScope<'b> + BumpAllocatorCore + TryWithMut, const N: usize>(
        ctx: &mut Ctx,
        bump: &mut B,
        op: &Op,
        mark: &PosMark,
        alloc_before: usize,
        min_align: usize,
        blobs: &mut Vec<(*const u8, Vec<u8>)>,
    ) {
        let try_ = !ctx.panicking_ok(op) || op.a[2] & 1 == 1;
        let fails = op.a[1] % 3 == 1;
        let seed = (op.a[3] % 251) as u8;
        let make = move || -> Result<[u8; N], u32> {
            elem::tick(); // a callback position: the fault plan may unwind from here
            if fails { Err(seed as u32) } else { Ok(std::array::from_fn(|i| noise_byte(seed, i))) }
        };
        let out = ctx.call(op, false, || bump.try_with_mut(try_, make));
        ctx.drain_errors();
        match out {
            Outcome::Ok(Ok(raw)) => {
                let got: &[u8; N] = unsafe { raw.as_ref() };
                let want: Vec<u8> = (0..N).map(|i| noise_byte(seed, i)).collect();
                if ctx.on.c15 && got[..] != want[..] {
                    ctx.viol("C15/finalised-contents", format!("alloc_try_with_mut returned a value of {N} bytes with wrong contents"));
                }
                if ctx.on.c15 && fails {
                    ctx.viol("C15/finalised-contents", "alloc_try_with_mut returned Ok although the closure returned Err".into());
                }
                let now = positions(&*bump);
                if ctx.on.c15 {
                    // a zero-sized value is "final contents of size 0": only minimum-alignment padding may be consumed
                    let bound = if N == 0 { min_align - 1 } else { std::mem::size_of::<Result<[u8; N], u32>>() + std::mem::align_of::<Result<[u8; N], u32>>() - 1 + (min_align - 1) };
                    if now.1 == mark.cur {
                        let delta = now.2 - alloc_before;
                        if delta > bound {
                            ctx.viol("C15/finalise-wasted-space", format!("alloc_try_with_mut of {N} bytes advanced allocated() by {delta} > {bound}"));
                        }
                    } else {
                        let used = bump.any_stats().current_chunk().map_or(0, |c| c.allocated());
                        if used > bound {
                            ctx.viol("C15/finalise-wasted-space", format!("alloc_try_with_mut of {N} bytes in a fresh chunk left {used} > {bound} bytes allocated in it"));
                        }
                        check_positions(ctx, mark, &now, "alloc_try_with_mut");
                    }
                }
                ctx.stats.probe("c15.try_with_ok");
                blobs.push((raw.as_ptr() as *const u8, want));
            }
            Outcome::Ok(Err(e)) => {
                if ctx.on.c15 && (!fails || e != seed as u32) {
                    ctx.viol("C15/finalised-contents", "alloc_try_with_mut returned an Err the closure did not produce".into());
                }
                check_unfinalised(ctx, &*bump, mark, alloc_before, "alloc_try_with_mut whose closure returned Err");
                ctx.stats.probe("c15.try_with_err");
            }
            Outcome::Injected | Outcome::AllocFailed => {
                check_unfinalised(ctx, &*bump, mark, alloc_before, "alloc_try_with_mut that failed or unwound");
                ctx.stats.probe("c15.try_with_unwound_or_failed");
            }
            Outcome::LibPanic(m) => {
                if ctx.on.c15 || ctx.on.c07 {
                    ctx.viol(if ctx.on.c07 { "C07/try-method-unwound" } else { "C15/helper-panicked" }, format!("alloc_try_with_mut panicked: {m}"));
                }
            }
        }
    }
    for (k, (ptr, want)) in blobs.iter().enumerate() {
        let got = unsafe { std::slice::from_raw_parts(*ptr, want.len()) };
        if got != &want[..] && (ctx.on.c15 || ctx.on.c08) {
            ctx.viol(if ctx.on.c15 { "C15/finalised-contents" } else { "C08/neighbour-overwritten" }, format!("value #{k} made by alloc_try_with_mut changed afterwards"));
            break;
        }
    }
    match op.a[0] % 5 {
        4 => go::<B, 0>(ctx, bump, op, mark, alloc_before, min_align, blobs),
        0 => go::<B, 5>(ctx, bump, op, mark, alloc_before, min_align, blobs),
        1 => go::<B, 48>(ctx, bump, op, mark, alloc_before, min_align, blobs),
        2 => go::<B, 200>(ctx, bump, op, mark, alloc_before, min_align, blobs),
        _ => go::<B, 1500>(ctx, bump, op, mark, alloc_before, min_align, blobs),
    }
}

drive_mut_impl!(drive_mut, one_mut, MutBumpVec, false);
drive_mut_impl!(drive_mut_rev, one_mut_rev, MutBumpVecRev, true);

/// Top level: creates the arena, runs the driver for the configured kind, drops everything, checks the ledgers.
pub fn run<A, S, E>(ctx: &mut Ctx)
where
    A: BaseAllocator<S::GuaranteedAllocated> + Default,
    S: BumpAllocatorSettings,
    E: Elem,
{
    let kind = ctx.trace.param_or("kind", 2) % 6;
    ctx.zst = E::ZST;
    ctx.rev = kind == 4;
    // without the guaranteed-allocated setting half of the runs start with an arena that owns no chunk yet
    let unallocated = !S::GUARANTEED_ALLOCATED && ctx.trace.param_or("heap_seed", 0) & 4 != 0;
    let made = catch_unwind(AssertUnwindSafe(|| if unallocated { Ok(Bump::<A, S>::default()) } else { Bump::<A, S>::try_new_in(A::default()) }));
    let mut bump: Bump<A, S> = match made {
        Ok(Ok(b)) => b,
        Ok(Err(_)) => {
            if !ctx.faulty {
                harness_bug("creating the arena failed without any fault configured".into());
            }
            return;
        }
        Err(p) => match classify_panic(p) {
            Caught::Harness(m) => harness_bug(m),
            _ => harness_bug("constructor panicked".into()),
        },
    };
    // one allocator carrier per instantiation (keeps the number of monomorphised drivers down)
    let carrier = (S::MIN_ALIGN.trailing_zeros() as u64 + std::mem::size_of::<E>() as u64 / 8 + S::UP as u64) % 2;
    match kind {
        0 => {
            if carrier == 0 {
                drive_box::<E, _>(ctx, &&bump)
            } else {
                drive_box::<E, _>(ctx, &bump.as_scope())
            }
        }
        1 => {
            if carrier == 0 {
                drive_fixed::<E, _>(ctx, &&bump)
            } else {
                drive_fixed::<E, _>(ctx, &bump.as_scope())
            }
        }
        2 => {
            struct G<'b, 'a, A: BaseAllocator<S::GuaranteedAllocated>, S: BumpAllocatorSettings>(bump_scope::BumpClaimGuard<'b, 'a, A, S>);
            impl<A: BaseAllocator<S::GuaranteedAllocated>, S: BumpAllocatorSettings> ClaimedArena for G<'_, '_, A, S> {
                fn allocated(&self) -> usize {
                    self.0.stats().allocated()
                }
                fn chunks(&self) -> usize {
                    self.0.stats().count()
                }
                fn try_alloc_bytes(&self, bytes: &[u8]) -> Option<*const u8> {
                    self.0.try_alloc_slice_copy(bytes).ok().map(|b| b.into_ref().as_ptr())
                }
            }
            let original = bump.as_scope();
            let claimer = || -> Box<dyn ClaimedArena + '_> { Box::new(G(original.claim())) };
            if carrier == 0 {
                drive_bumpvec::<E, _>(ctx, &&bump, &claimer)
            } else {
                drive_bumpvec::<E, _>(ctx, &bump.as_scope(), &claimer)
            }
        }
        5 => {
            // the Copy-element entry points (plain u32 elements)
            use crate::copyvec::drive_copy;
            match ctx.trace.param_or("ckind", 0) % 4 {
                0 => {
                    let mut v: BumpVec<u32, _> = BumpVec::new_in(&bump);
                    drive_copy(ctx, &mut v);
                    // BumpVec::map / try_map across element layouts, on whatever state the operations left behind
                    let hs = ctx.trace.param_or("heap_seed", 0);
                    let try_ = ctx.faulty || hs & 1 == 1;
                    heap::with(0, |h| h.begin_op(ctx.trace.ops.len() as u32 + 1, None, 0));
                    let r = catch_unwind(AssertUnwindSafe(|| crate::copyvec::map_probe_on(&&bump, 1 + (hs >> 1) as usize % 9, try_)));
                    heap::with(0, |h| h.end_op());
                    match r {
                        Ok(Some(m)) => {
                            if ctx.on.c08 {
                                ctx.viol("C08/map-contents", m);
                            }
                        }
                        Ok(None) => ctx.stats.probe("copy.map_probe"),
                        Err(p) => match classify_panic(p) {
                            Caught::Harness(m) => harness_bug(m),
                            Caught::Library(m) => {
                                if ctx.on.c08 {
                                    ctx.viol("C08/panic-mismatch", format!("BumpVec::map panicked: {m}"));
                                }
                            }
                            Caught::Injected(_) => {}
                        },
                    }
                }
                1 => {
                    let cap = 4 + ctx.trace.param_or("heap_seed", 0) as usize % 40;
                    if let Ok(mut v) = FixedBumpVec::<u32>::try_with_capacity_in(cap, &bump) {
                        drive_copy(ctx, &mut v);
                    }
                }
                2 => {
                    let mut v: MutBumpVec<u32, _> = MutBumpVec::new_in(&mut bump);
                    drive_copy(ctx, &mut v);
                }
                _ => {
                    let mut v: MutBumpVecRev<u32, _> = MutBumpVecRev::new_in(&mut bump);
                    drive_copy(ctx, &mut v);
                }
            }
        }
        3 | 4 if !S::GUARANTEED_ALLOCATED => {
            // through the trait-object allocator
            ctx.stats.probe("carrier.dyn_mut");
            // ... of the scope itself or of one of the opt-out wrappers around it
            let mut ws;
            let mut wd;
            let mut d: &mut dyn bump_scope::traits::MutBumpAllocatorCoreScope<'_> = match ctx.trace.param_or("heap_seed", 0) >> 3 & 3 {
                0 | 1 => bump.as_mut_scope(),
                2 => {
                    ws = bump_scope::WithoutShrink(bump.as_mut_scope());
                    &mut ws
                }
                _ => {
                    wd = bump_scope::WithoutDealloc(bump.as_mut_scope());
                    &mut wd
                }
            };
            if kind == 3 {
                drive_mut::<E, _>(ctx, &mut d, S::MIN_ALIGN)
            } else {
                drive_mut_rev::<E, _>(ctx, &mut d, S::MIN_ALIGN)
            }
        }
        3 => {
            if carrier == 0 {
                drive_mut::<E, _>(ctx, &mut &mut bump, S::MIN_ALIGN)
            } else {
                drive_mut::<E, _>(ctx, &mut bump.as_mut_scope(), S::MIN_ALIGN)
            }
        }
        _ => {
            if carrier == 0 {
                drive_mut_rev::<E, _>(ctx, &mut &mut bump, S::MIN_ALIGN)
            } else {
                drive_mut_rev::<E, _>(ctx, &mut bump.as_mut_scope(), S::MIN_ALIGN)
            }
        }
    }
    drop(bump);
    finish::<E>(ctx);
}

/// History check at the end: every element dropped exactly once (or leaked on purpose); heap ledger clean.
pub fn finish<E: Elem>(ctx: &mut Ctx) {
    heap::with(0, |h| h.final_check(true));
    ctx.drain_errors();
    let (live, zst_live, injected, clones, drops) = elem::with(|l| (l.live_ids(), l.zst_live, l.injected, l.clones, l.drops));
    if ctx.on.c06 && !ctx.drop_panicked {
        if !live.is_empty() {
            ctx.viol("C06/leak", format!("{} elements were never dropped (ids {:?}...)", live.len(), &live[..live.len().min(6)]));
        }
        if zst_live != 0 {
            ctx.viol("C06/leak", format!("{zst_live} zero-sized elements were never dropped"));
        }
        if ctx.on.c07 && ctx.had_failure && (!live.is_empty() || zst_live != 0) {
            ctx.viol("C07/leak-after-failure", format!("{} elements (+{zst_live} zero-sized) were never dropped in a run with a failed allocation", live.len()));
        }
    }
    ctx.stats.add("ledger.clones", clones);
    ctx.stats.add("ledger.drops", drops);
    ctx.stats.add("fault.injected_unwinds", injected as u64);
    let fired = heap::with(0, |h| h.fired);
    for (i, n) in fired.iter().enumerate() {
        if *n > 0 {
            ctx.stats.add(&format!("fault.{}", heap::FAULT_NAMES[i]), *n);
            ctx.stats.run_nontrivial = true;
        }
    }
}
