//! Settings x base allocator x element type matrix of the collection world (DESIGN.md section 4).
//! The same driver code is compiled as several modules to spread monomorphised code over codegen units.

use bump_scope::settings::BumpSettings;
use sim::heap::{H0, H8};

use crate::elem::{E1, E4, E16, E24, EZ};
use crate::interp::Ctx;

#[path = "phases.rs"]
pub mod p0_0;
#[path = "phases.rs"]
pub mod p0_1;
#[path = "phases.rs"]
pub mod p0_2;
#[path = "phases.rs"]
pub mod p1_0;
#[path = "phases.rs"]
pub mod p1_1;
#[path = "phases.rs"]
pub mod p1_2;
#[path = "phases.rs"]
pub mod p2_0;
#[path = "phases.rs"]
pub mod p2_1;
#[path = "phases.rs"]
pub mod p2_2;
#[path = "phases.rs"]
pub mod p3_0;
#[path = "phases.rs"]
pub mod p3_1;
#[path = "phases.rs"]
pub mod p3_2;
#[path = "phases.rs"]
pub mod p4_0;
#[path = "phases.rs"]
pub mod p4_1;
#[path = "phases.rs"]
pub mod p4_2;
#[path = "phases.rs"]
pub mod p5_0;
#[path = "phases.rs"]
pub mod p5_1;
#[path = "phases.rs"]
pub mod p5_2;
#[cfg(not(feature = "small"))]
#[path = "phases.rs"]
pub mod p6_0;

/// (up, min_align, allocator kind, minimum chunk size)
pub const SETTINGS: [(bool, usize, usize, usize); 7] = [(true, 1, 0, 1), (false, 1, 1, 1), (true, 4, 1, 1), (false, 4, 0, 512), (true, 16, 0, 512), (false, 16, 1, 1), (true, 1, 1, 1)];
pub const ELEMS: [&str; 5] = ["E4(4/4)", "E1(1/1)", "E24(24/8)", "E16(16/16)", "EZ(zst)"];

#[cfg(not(feature = "small"))]
pub const N_SETTINGS: u64 = 7;
#[cfg(feature = "small")]
pub const N_SETTINGS: u64 = 2;

/// Element types exercised per setting (covering design: every element type meets both bump directions).
pub const ELEMS_OF: [[u64; 3]; 7] = [[0, 1, 2], [1, 2, 3], [2, 3, 4], [3, 4, 0], [4, 0, 1], [0, 2, 4], [2, 2, 2]];

macro_rules! run3 {
    ($m0:ident, $m1:ident, $m2:ident, $A:ty, $S:ty, $e:expr, $ctx:expr, $E0:ty, $E1:ty, $E2:ty) => {
        match $e {
            0 => $m0::run::<$A, $S, $E0>($ctx),
            1 => $m1::run::<$A, $S, $E1>($ctx),
            _ => $m2::run::<$A, $S, $E2>($ctx),
        }
    };
}

/// `slot` selects one of the three element types of the setting.
pub fn dispatch(setting: u64, slot: u64, ctx: &mut Ctx<'_>) {
    match setting {
        0 => run3!(p0_0, p0_1, p0_2, H0<0>, BumpSettings<1, true, true, true, true, true, 1>, slot, ctx, E4, E1, E24),
        1 => run3!(p1_0, p1_1, p1_2, H8<0>, BumpSettings<1, false, true, true, true, true, 1>, slot, ctx, E1, E24, E16),
        #[cfg(not(feature = "small"))]
        2 => run3!(p2_0, p2_1, p2_2, H8<0>, BumpSettings<4, true, true, true, true, true, 1>, slot, ctx, E24, E16, EZ),
        #[cfg(not(feature = "small"))]
        3 => run3!(p3_0, p3_1, p3_2, H0<0>, BumpSettings<4, false, true, true, true, true, 512>, slot, ctx, E16, EZ, E4),
        #[cfg(not(feature = "small"))]
        4 => run3!(p4_0, p4_1, p4_2, H0<0>, BumpSettings<16, true, true, true, true, true, 512>, slot, ctx, EZ, E4, E1),
        #[cfg(not(feature = "small"))]
        5 => run3!(p5_0, p5_1, p5_2, H8<0>, BumpSettings<16, false, true, true, true, true, 1>, slot, ctx, E4, E24, EZ),
        // not guaranteed allocated (the arena may start without a chunk); one element type (24 bytes, align 8)
        #[cfg(not(feature = "small"))]
        6 => p6_0::run::<H8<0>, BumpSettings<1, true, false, true, true, true, 1>, E24>(ctx),
        _ => sim::runner::harness_bug(format!("no such setting {setting}")),
    }
}
