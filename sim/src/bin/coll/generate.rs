//! Seeded generation of collection-world traces.

use sim::rng::Rng;
use sim::runner::Tier;
use sim::trace::{Op, Trace};

use crate::configs::N_SETTINGS;
use crate::interp::*;

pub fn generate(prop: &str, run_seed: u64, _index: u64, tier: Tier) -> Trace {
    let root = Rng::new(run_seed);
    let mut rc = root.fork(1);
    let mut rf = root.fork(2);
    let mut rw = root.fork(3);
    let mut r = root.fork(4);

    let mut t = Trace { world: "coll".into(), prop: prop.into(), seed: run_seed, ..Default::default() };
    t.set_param("setting", rc.below(N_SETTINGS));
    t.set_param("elem", rc.below(3));
    let kind = match prop {
        "C15" => 3 + rc.below(2),
        "C16" | "C01" => rc.weighted(&[5, 3, 3, 0, 0]) as u64,
        "C14" => 2,
        "C08" | "C07" => rc.weighted(&[4, 4, 4, 4, 4, 3]) as u64,
        _ => rc.below(5),
    };
    t.set_param("kind", kind);
    if kind == 5 {
        t.set_param("ckind", rc.below(4));
    }
    t.set_param("carrier", rc.below(2));
    t.set_param("policy", rc.below(5));
    t.set_param("heap_seed", rc.next() >> 16);

    // faults: callback panics and allocation refusals attached to operations
    let (panic_rate, refuse_rate) = match prop {
        "C06" => (*rf.pick(&[0u64, 10, 25, 50]), *rf.pick(&[0u64, 0, 5])),
        "C07" => (*rf.pick(&[0u64, 5]), *rf.pick(&[10u64, 25, 50])),
        "C08" => (*rf.pick(&[0u64, 0, 5]), *rf.pick(&[0u64, 0, 5])),
        "C15" => (*rf.pick(&[0u64, 10, 25]), *rf.pick(&[0u64, 5, 15])),
        _ => (*rf.pick(&[0u64, 5, 15]), *rf.pick(&[0u64, 5])),
    };
    let drop_panic = prop == "C06" && rf.chance(1, 8);

    let mut w = vec![0u32; OP_NAMES.len()];
    let base: &[(u16, u32)] = &[
        (K_PUSH, 14), (K_INSERT, 6), (K_REMOVE, 4), (K_SWAP_REMOVE, 3), (K_POP, 3), (K_POP_IF, 2), (K_TRUNCATE, 3), (K_CLEAR, 1), (K_RESIZE, 3),
        (K_RESIZE_WITH, 3), (K_EXT_SLICE, 4), (K_EXT_WITHIN, 4), (K_APPEND, 5), (K_RESERVE, 3), (K_RESERVE_EXACT, 2), (K_EXTEND, 4), (K_RETAIN, 4),
        (K_DEDUP_KEY, 2), (K_DEDUP_BY, 2), (K_DEDUP, 1), (K_DRAIN, 5), (K_EXTRACT_IF, 3), (K_SHRINK_TO_FIT, 2), (K_SHRINK_TO, 1), (K_NEW, 4), (K_DROP, 2),
        (K_SPLIT_OFF, 3), (K_MERGE_BACK, 2), (K_INTO_BOX, 2), (K_INTO_ITER, 2), (K_MAP, 2), (K_MAP_IN_PLACE, 2), (K_SPLICE, 3), (K_NOISE, 4),
        (K_FINALIZE, 3), (K_HELPER, 3), (K_SPLIT_AT, 3), (K_PARTITION, 2), (K_CONVERT, 2), (K_PART_OP, 2), (K_CLONE, 2), (K_TRY_WITH, 3), (K_FLATTEN, 2), (K_SPLIT_SPARE, 2),
    ];
    for &(k, x) in base {
        w[k as usize] = x;
    }
    if prop == "C16" || prop == "C01" {
        for k in [K_SPLIT_OFF, K_SPLIT_AT, K_PARTITION, K_MERGE_BACK, K_NOISE, K_PART_OP, K_CONVERT, K_MAP_IN_PLACE, K_INTO_BOX, K_FLATTEN, K_SPLIT_SPARE] {
            w[k as usize] *= 4;
        }
    }
    if prop == "C14" {
        w[K_CLAIM_OPS as usize] = 12;
        for k in [K_PUSH, K_RESERVE, K_EXTEND, K_EXT_SLICE, K_APPEND, K_NOISE, K_INSERT, K_RESIZE] {
            w[k as usize] *= 2;
        }
    } else if rw.chance(1, 4) {
        // claims also interleave with the other properties' workloads (BumpVec driver only)
        w[K_CLAIM_OPS as usize] = 3;
    }
    if prop == "C15" {
        for k in [K_FINALIZE, K_HELPER, K_TRY_WITH, K_DROP, K_EXTEND, K_EXT_SLICE, K_PUSH] {
            w[k as usize] *= 2;
        }
    }
    for k in 0..w.len() {
        if w[k] > 0 && k as u16 != K_PUSH && k as u16 != K_NEW && rw.chance(1, 6) {
            w[k] = 0;
        }
    }
    let max_ops = match tier {
        Tier::Quick => 40,
        Tier::Thorough => 80,
    };
    let n_ops = 3 + rw.below(max_ops - 2);
    let mut ops = Vec::new();
    for _ in 0..n_ops {
        let k = r.weighted(&w) as u16;
        let mut op = Op::new(k, &[r.below(1 << 12), r.below(1 << 12), r.below(1 << 12), r.below(1 << 12), r.below(8), 0]);
        if panic_rate > 0 && rf.below(100) < panic_rate {
            op.panic_at = 1 + rf.below(12) as u32;
            if drop_panic && rf.chance(1, 2) {
                op.a[5] = 1;
            }
        }
        if refuse_rate > 0 && rf.below(100) < refuse_rate {
            if rf.chance(3, 4) {
                op.fail_nth = 1 + rf.below(2) as u32;
            } else {
                op.burst = 1 + rf.below(2) as u32;
            }
        }
        ops.push(op);
    }
    t.ops = ops;
    t
}
