//! Tracked element types and the drop ledger (C06), plus the callback fault plan.
//!
//! Every element carries a unique id. The ledger (one per run, thread-local) knows for every id whether
//! it is live, dropped or explicitly leaked and which logical value it carries (a clone gets a new id with
//! the same value). A second drop, a clone of / predicate access to a dead id are immediate violations.
//! Every user callback (`Clone::clone`, `Drop::drop`, closures, iterator `next`) ticks a per-operation
//! counter; the fault plan makes the j-th tick of an operation unwind ("crash at an arbitrary point").

use std::cell::RefCell;

use sim::runner::inject_panic;

pub const UNUSED: u8 = 0;
pub const LIVE: u8 = 1;
pub const DROPPED: u8 = 2;
pub const LEAKED: u8 = 3;

#[derive(Default)]
pub struct Ledger {
    pub state: Vec<u8>,
    pub val: Vec<u32>,
    pub errors: Vec<(&'static str, String)>,
    pub ticks: u32,
    pub panic_at: u32,
    /// ticks in `Drop::drop` count (and may panic) only in this mode
    pub drop_panics: bool,
    pub injected: u32,
    pub max_ids: usize,
    pub zst_live: i64,
    pub zst_leaked: i64,
    pub clones: u64,
    pub drops: u64,
}

thread_local! {
    static LEDGER: RefCell<Ledger> = RefCell::new(Ledger::default());
}

pub fn with<R>(f: impl FnOnce(&mut Ledger) -> R) -> R {
    LEDGER.with(|l| f(&mut l.borrow_mut()))
}

impl Ledger {
    pub fn reset(&mut self, max_ids: usize) {
        *self = Ledger::default();
        self.state.push(UNUSED);
        self.val.push(0);
        self.max_ids = max_ids;
    }

    pub fn ids_left(&self) -> usize {
        self.max_ids.saturating_sub(self.state.len())
    }

    fn new_id(&mut self, val: u32) -> u32 {
        self.state.push(LIVE);
        self.val.push(val);
        (self.state.len() - 1) as u32
    }

    pub fn begin_op(&mut self, panic_at: u32, drop_panics: bool) {
        self.ticks = 0;
        self.panic_at = panic_at;
        self.drop_panics = drop_panics;
    }

    pub fn end_op(&mut self) {
        self.panic_at = 0;
        self.drop_panics = false;
    }

    pub fn value_of(&self, id: u32) -> u32 {
        self.val.get(id as usize).copied().unwrap_or(u32::MAX)
    }

    pub fn is_live(&self, id: u32) -> bool {
        self.state.get(id as usize) == Some(&LIVE)
    }

    pub fn mark_leaked(&mut self, id: u32) {
        if self.is_live(id) {
            self.state[id as usize] = LEAKED;
        }
    }

    pub fn live_ids(&self) -> Vec<u32> {
        (1..self.state.len() as u32).filter(|&i| self.state[i as usize] == LIVE).collect()
    }
}

/// A callback invocation: may unwind according to the fault plan.
pub fn tick() {
    let fire = with(|l| {
        l.ticks += 1;
        if l.panic_at != 0 && l.ticks == l.panic_at {
            l.injected += 1;
            true
        } else {
            false
        }
    });
    if fire {
        let n = with(|l| l.ticks);
        inject_panic(n);
    }
}

pub fn create(val: u32) -> u32 {
    with(|l| l.new_id(val))
}

pub fn access(id: u32, what: &str) {
    if id == 0 {
        return; // zero-sized elements have no identity
    }
    with(|l| {
        if !l.is_live(id) {
            let st = l.state.get(id as usize).copied().unwrap_or(UNUSED);
            l.errors.push(("C06/access-dead", format!("{what}: element id {id} is not live (state {st})")));
        }
    })
}

fn on_clone(id: u32) -> u32 {
    access(id, "clone");
    tick();
    with(|l| {
        l.clones += 1;
        let v = l.value_of(id);
        l.new_id(v)
    })
}

fn on_drop(id: u32) {
    let panic_now = with(|l| {
        l.drops += 1;
        match l.state.get(id as usize).copied() {
            Some(LIVE) => l.state[id as usize] = DROPPED,
            Some(DROPPED) => l.errors.push(("C06/double-drop", format!("element id {id} dropped a second time"))),
            Some(LEAKED) => l.errors.push(("C06/double-drop", format!("element id {id} dropped after it was leaked/forgotten"))),
            _ => l.errors.push(("C06/drop-of-garbage", format!("drop called on something that is not an element (id {id})"))),
        }
        if l.drop_panics && !std::thread::panicking() {
            l.ticks += 1;
            if l.panic_at != 0 && l.ticks == l.panic_at {
                l.injected += 1;
                return true;
            }
        }
        false
    });
    if panic_now {
        inject_panic(u32::MAX);
    }
}

pub trait Elem: Sized + Clone + PartialEq + 'static {
    const ZST: bool = false;
    const NAME: &'static str;
    fn new(val: u32) -> Self;
    fn id(&self) -> u32;
    fn val(&self) -> u32 {
        with(|l| l.value_of(self.id()))
    }
}

macro_rules! elem_type {
    ($name:ident, $idty:ty, $(#[$attr:meta])* { $($pad:ident : $padty:ty = $padv:expr),* }) => {
        $(#[$attr])*
        #[derive(Debug)]
        pub struct $name { id: $idty, $($pad: $padty),* }

        impl Elem for $name {
            const NAME: &'static str = stringify!($name);
            fn new(val: u32) -> Self { Self { id: create(val) as $idty, $($pad: $padv),* } }
            fn id(&self) -> u32 {
                $( if self.$pad != $padv { with(|l| l.errors.push(("C06/element-corrupted", format!("padding of element id {} was overwritten", self.id)))); } )*
                self.id as u32
            }
        }

        impl Clone for $name {
            fn clone(&self) -> Self { Self { id: on_clone(self.id as u32) as $idty, $($pad: $padv),* } }
        }

        impl Drop for $name {
            fn drop(&mut self) { on_drop(self.id as u32) }
        }

        impl PartialEq for $name {
            fn eq(&self, other: &Self) -> bool {
                access(self.id as u32, "eq");
                access(other.id as u32, "eq");
                self.val() == other.val()
            }
        }
    };
}

elem_type!(E1, u8, {});
elem_type!(E4, u32, {});
elem_type!(E24, u32, { a: u64 = 0x1111_2222_3333_4444, b: u64 = 0x5555_6666_7777_8888 });
elem_type!(E16, u32, #[repr(align(16))] { a: u64 = 0x9999_aaaa_bbbb_cccc });

/// Zero-sized element: identity cannot be tracked, only the number of live instances.
#[derive(Debug)]
pub struct EZ;

impl Elem for EZ {
    const ZST: bool = true;
    const NAME: &'static str = "EZ";
    fn new(_val: u32) -> Self {
        with(|l| l.zst_live += 1);
        EZ
    }
    fn id(&self) -> u32 {
        0
    }
    fn val(&self) -> u32 {
        0
    }
}

impl Clone for EZ {
    fn clone(&self) -> Self {
        tick();
        with(|l| {
            l.clones += 1;
            l.zst_live += 1
        });
        EZ
    }
}

impl Drop for EZ {
    fn drop(&mut self) {
        let panic_now = with(|l| {
            l.drops += 1;
            l.zst_live -= 1;
            if l.zst_live < 0 {
                l.errors.push(("C06/double-drop", "more zero-sized elements dropped than were created".to_string()));
                l.zst_live = 0;
            }
            if l.drop_panics && !std::thread::panicking() {
                l.ticks += 1;
                if l.panic_at != 0 && l.ticks == l.panic_at {
                    l.injected += 1;
                    return true;
                }
            }
            false
        });
        if panic_now {
            inject_panic(u32::MAX);
        }
    }
}

impl PartialEq for EZ {
    fn eq(&self, _other: &Self) -> bool {
        true
    }
}
