//! The `Copy`-element entry points of the vector types (`extend_from_slice_copy`, `extend_from_within_copy`,
//! `push_unchecked`, `spare_capacity_mut` + `set_len`, `into_slice`): the tracked element types of this world are
//! not `Copy`, so these paths get a small driver of their own with plain `u32` elements against a `Vec<u32>` model.

use bump_scope::traits::{BumpAllocatorTypedScope, MutBumpAllocatorTypedScope};
use bump_scope::{BumpVec, FixedBumpVec, MutBumpVec, MutBumpVecRev};

use sim::trace::Op;

use crate::interp::*;

pub trait CopyVec {
    const REV: bool;
    const FIXED: bool;
    const NAME: &'static str;
    fn sl(&self) -> &[u32];
    fn capa(&self) -> usize;
    fn ext_slice(&mut self, xs: &[u32], try_: bool) -> Result<(), ()>;
    fn ext_within(&mut self, r: std::ops::Range<usize>, try_: bool) -> Result<(), ()>;
    fn push1(&mut self, x: u32, try_: bool) -> Result<(), ()>;
    /// pushes without a capacity check; the caller guarantees room
    unsafe fn push_nocheck(&mut self, x: u32);
    fn reserve1(&mut self, n: usize) -> Result<(), ()>;
    /// writes up to `xs.len()` values into the spare capacity and makes them part of the vector; returns how many
    /// (0 for the kinds without `spare_capacity_mut`)
    fn fill_spare(&mut self, xs: &[u32]) -> usize;
}

/// BumpVec::map to every combination of smaller / equal / bigger size and lower / equal / higher alignment. The
/// source vector is allocated right after a one-byte allocation, so with a minimum alignment of 1 its buffer sits at an
/// odd address: the result may only reuse that buffer if it is aligned for the new element type.
pub fn map_probe_on<'b, B: BumpAllocatorTypedScope<'b> + Clone>(b: &B, n: usize, try_: bool) -> Option<String> {
    fn check<U: Copy + PartialEq + std::fmt::Debug, A: bump_scope::traits::BumpAllocatorTyped>(v: &BumpVec<U, A>, want: &[U], what: &str) -> Option<String> {
        if (v.as_ptr() as usize) % std::mem::align_of::<U>() != 0 {
            return Some(format!("{what}: the buffer {:p} of the mapped vector is not aligned to {}", v.as_ptr(), std::mem::align_of::<U>()));
        }
        if v.as_slice() != want {
            return Some(format!("{what}: wrong elements after map"));
        }
        if v.capacity() < v.len() {
            return Some(format!("{what}: capacity {} < len {}", v.capacity(), v.len()));
        }
        None
    }
    let _odd = b.try_alloc_slice_copy(&[7u8]).ok()?;
    let src: Vec<[u8; 4]> = (0..n).map(|i| (i as u32 * 0x0101_0101 + 5).to_le_bytes()).collect();
    let v8: BumpVec<[u8; 4], B> = BumpVec::try_from_iter_in(src.iter().copied(), b.clone()).ok()?;
    let want32: Vec<u32> = src.iter().map(|x| u32::from_le_bytes(*x)).collect();
    // not bigger, more aligned
    let v32: BumpVec<u32, B> = if try_ { v8.try_map(u32::from_le_bytes).ok()? } else { v8.map(u32::from_le_bytes) };
    if let Some(m) = check(&v32, &want32, "[u8; 4] -> u32") {
        return Some(m);
    }
    // smaller, less aligned (may reuse)
    let want16: Vec<u16> = want32.iter().map(|x| *x as u16).collect();
    let v16: BumpVec<u16, B> = if try_ { v32.try_map(|x| x as u16).ok()? } else { v32.map(|x| x as u16) };
    if let Some(m) = check(&v16, &want16, "u32 -> u16") {
        return Some(m);
    }
    // bigger
    let want64: Vec<u64> = want16.iter().map(|x| *x as u64 * 3).collect();
    let v64: BumpVec<u64, B> = if try_ { v16.try_map(|x| x as u64 * 3).ok()? } else { v16.map(|x| x as u64 * 3) };
    if let Some(m) = check(&v64, &want64, "u16 -> u64") {
        return Some(m);
    }
    // same size, lower alignment, back and forth
    let wantb: Vec<[u8; 8]> = want64.iter().map(|x| x.to_le_bytes()).collect();
    let vb: BumpVec<[u8; 8], B> = if try_ { v64.try_map(|x| x.to_le_bytes()).ok()? } else { v64.map(|x| x.to_le_bytes()) };
    if let Some(m) = check(&vb, &wantb, "u64 -> [u8; 8]") {
        return Some(m);
    }
    None
}


macro_rules! copyvec_impl {
    ($ty:ty, [$($g:tt)*], $rev:expr, $fixed:expr, $name:expr, $spare:tt) => {
        impl<$($g)*> CopyVec for $ty {
            const REV: bool = $rev;
            const FIXED: bool = $fixed;
            const NAME: &'static str = $name;
            fn sl(&self) -> &[u32] {
                self
            }
            fn capa(&self) -> usize {
                self.capacity()
            }
            fn ext_slice(&mut self, xs: &[u32], try_: bool) -> Result<(), ()> {
                if try_ { self.try_extend_from_slice_copy(xs).map_err(drop) } else { Ok(self.extend_from_slice_copy(xs)) }
            }
            fn ext_within(&mut self, r: std::ops::Range<usize>, try_: bool) -> Result<(), ()> {
                if try_ { self.try_extend_from_within_copy(r).map_err(drop) } else { Ok(self.extend_from_within_copy(r)) }
            }
            fn push1(&mut self, x: u32, try_: bool) -> Result<(), ()> {
                if try_ { self.try_push(x).map_err(drop) } else { Ok(self.push(x)) }
            }
            unsafe fn push_nocheck(&mut self, x: u32) {
                // the three unchecked forms in turn; the `_mut` form also writes through the reference it returns, so a
                // reference to the wrong slot shows as a contents mismatch
                unsafe {
                    match x % 3 {
                        0 => self.push_unchecked(x),
                        1 => {
                            let r = self.push_mut_unchecked(x ^ 0x4000_0000);
                            *r ^= 0x4000_0000;
                        }
                        _ => self.push_with_unchecked(|| x),
                    }
                }
            }
            fn reserve1(&mut self, n: usize) -> Result<(), ()> {
                self.try_reserve(n).map_err(drop)
            }
            fn fill_spare(&mut self, xs: &[u32]) -> usize {
                copyvec_impl!(@spare $spare, self, xs)
            }
        }
    };
    (@spare spare, $s:ident, $xs:ident) => {{
        let len = $s.len();
        let k;
        if $xs.len() % 2 == 1 {
            // `split_at_spare_mut`: the initialised part must be the whole old contents (a shorter or longer one makes
            // the new elements land at the wrong index, which the model comparison sees)
            let (init, spare) = $s.split_at_spare_mut();
            let ilen = init.len();
            k = spare.len().min($xs.len());
            for i in 0..k {
                spare[i].write($xs[i]);
            }
            unsafe { $s.set_len(ilen + k) };
        } else {
            let spare = $s.spare_capacity_mut();
            k = spare.len().min($xs.len());
            for i in 0..k {
                spare[i].write($xs[i]);
            }
            unsafe { $s.set_len(len + k) };
        }
        k
    }};
    (@spare nospare, $s:ident, $xs:ident) => {{
        let _ = $xs;
        0
    }};
}

copyvec_impl!(BumpVec<u32, B>, ['b, B: BumpAllocatorTypedScope<'b>], false, false, "BumpVec<u32>", spare);
copyvec_impl!(FixedBumpVec<'b, u32>, ['b], false, true, "FixedBumpVec<u32>", nospare);
copyvec_impl!(MutBumpVec<u32, B>, ['b, B: MutBumpAllocatorTypedScope<'b>], false, false, "MutBumpVec<u32>", spare);
copyvec_impl!(MutBumpVecRev<u32, B>, ['b, B: MutBumpAllocatorTypedScope<'b>], true, false, "MutBumpVecRev<u32>", nospare);

/// Runs the remaining operations of the trace on `v`.
pub fn drive_copy<V: CopyVec>(ctx: &mut Ctx, v: &mut V) {
    let mut m: Vec<u32> = v.sl().to_vec();
    while let Some(op) = ctx.next_op() {
        let len = m.len();
        let room = if V::FIXED { v.capa() - len } else { usize::MAX };
        let try_forced = !ctx.panicking_ok(&op);
        // extend_from_within doubles the vector: keep it small enough that the simulated heap never has to refuse a
        // giant chunk to a panicking method (that would be an abort caused by the harness, not by the library)
        if len > 20_000 {
            ctx.stats.probe("copy.length_cap");
            break;
        }
        let try_ = try_forced || op.a[2] & 1 == 1 || len > 2_000;
        let n = op.a[1] as usize % 12;
        let xs: Vec<u32> = (0..n).map(|_| ctx.fresh_val()).collect();
        let mut expect = m.clone();
        let what;
        let mut want_panic = false;
        let mut full = false;
        let out = match op.kind % 5 {
            0 => {
                what = "extend_from_slice_copy";
                full = n > room;
                Model::extend(&mut expect, V::REV, &xs);
                ctx.call(&op, false, || v.ext_slice(&xs, try_))
            }
            1 => {
                what = "extend_from_within_copy";
                let (r, valid) = range_arg(op.a[0], op.a[3], len);
                match valid {
                    Some((s, e)) => {
                        full = e - s > room;
                        let ys = expect[s..e].to_vec();
                        Model::extend(&mut expect, V::REV, &ys);
                        ctx.call(&op, false, || v.ext_within(s..e, try_))
                    }
                    None => {
                        want_panic = true;
                        let (s, e) = match r {
                            (std::ops::Bound::Included(s), std::ops::Bound::Excluded(e)) => (s, e),
                            _ => (len + 1, len + 2),
                        };
                        ctx.call(&op, false, || v.ext_within(s..e, try_))
                    }
                }
            }
            2 => {
                what = "push_unchecked";
                // make room first (not for the fixed kind), then push without checks
                let k = n.min(room);
                match ctx.call(&op, false, || v.reserve1(k)) {
                    Outcome::Ok(()) if v.capa() - len >= k => {
                        for &x in &xs[..k] {
                            Model::push(&mut expect, V::REV, x);
                        }
                        ctx.call(&op, false, || {
                            for &x in &xs[..k] {
                                unsafe { v.push_nocheck(x) };
                            }
                            Ok(())
                        })
                    }
                    Outcome::Ok(()) => Outcome::AllocFailed,
                    other => other,
                }
            }
            3 => {
                what = "spare_capacity_mut + set_len";
                let mut k = 0;
                let r = ctx.call(&op, false, || {
                    k = v.fill_spare(&xs);
                    Ok(())
                });
                for &x in &xs[..k] {
                    Model::push(&mut expect, V::REV, x);
                }
                r
            }
            _ => {
                what = "push";
                full = room < 1;
                let x = ctx.fresh_val();
                Model::push(&mut expect, V::REV, x);
                ctx.call(&op, false, || v.push1(x, try_))
            }
        };
        ctx.drain_errors();
        let got = v.sl().to_vec();
        match out {
            Outcome::Ok(()) => {
                if want_panic || (full && V::FIXED) {
                    if ctx.on.c08 {
                        ctx.viol("C08/panic-mismatch", format!("{what} on {}: returned although the range is invalid or the fixed vector is full", V::NAME));
                    }
                } else if got != expect && ctx.on.c08 {
                    ctx.viol("C08/contents-mismatch", format!("{what} on {}: {} elements, expected {} (first difference at {:?})", V::NAME, got.len(), expect.len(), got.iter().zip(expect.iter()).position(|(a, b)| a != b)));
                }
            }
            Outcome::AllocFailed | Outcome::LibPanic(_) => {
                if let Outcome::LibPanic(msg) = &out {
                    let expected = want_panic || (full && V::FIXED) || msg.contains("capacity overflow");
                    if !expected && ctx.on.c08 {
                        ctx.viol("C08/panic-mismatch", format!("{what} on {}: panicked ({msg})", V::NAME));
                    }
                    if !expected && ctx.on.c07 && try_ {
                        ctx.viol("C07/try-method-unwound", format!("{what} on {} (try_ form): panicked: {msg}", V::NAME));
                    }
                }
                if got != m && (ctx.on.c07 || ctx.on.c08) {
                    ctx.viol(if ctx.on.c07 { "C07/collection-changed-on-failure" } else { "C08/collection-changed-on-failure" }, format!("{what} on {} failed but the vector changed: {} -> {} elements", V::NAME, m.len(), got.len()));
                }
            }
            Outcome::Injected => {}
        }
        m = got;
        if ctx.on.c08 && v.capa() < m.len() {
            ctx.viol("C08/capacity-below-len", format!("{what} on {}: capacity {} < len {}", V::NAME, v.capa(), m.len()));
        }
        ctx.stats.probe("copy.op");
    }
}
