//! Scripted iterators (may lie about their length, tick the fault plan on every `next`).

use std::marker::PhantomData;

use crate::elem::{self, Elem};

/// Takes an element handed out by the library: checks that it is live, drops it, returns its id.
pub fn take_id<E: Elem>(e: E) -> u32 {
    let id = e.id();
    if !E::ZST {
        elem::access(id, "element handed out by the library");
    }
    drop(e);
    id
}

#[derive(Clone, Copy, Debug, PartialEq, Eq)]
pub enum Hint {
    Exact = 0,
    Zero = 1,
    TooLow = 2,
    TooHigh = 3,
    Unbounded = 4,
}

impl Hint {
    pub fn from(x: u64) -> Hint {
        match x % 5 {
            0 => Hint::Exact,
            1 => Hint::Zero,
            2 => Hint::TooLow,
            3 => Hint::TooHigh,
            _ => Hint::Unbounded,
        }
    }
}

/// Yields `vals.len()` fresh elements (created lazily, so an element that was never yielded never existed).
pub struct Scripted<E> {
    pub vals: Vec<u32>,
    pub pos: usize,
    pub back: usize,
    pub hint: Hint,
    _p: PhantomData<E>,
}

impl<E: Elem> Scripted<E> {
    pub fn new(vals: Vec<u32>, hint: Hint) -> Self {
        let back = vals.len();
        Scripted { vals, pos: 0, back, hint, _p: PhantomData }
    }
    fn rem(&self) -> usize {
        self.back - self.pos
    }
}

impl<E: Elem> Iterator for Scripted<E> {
    type Item = E;
    fn next(&mut self) -> Option<E> {
        elem::tick();
        if self.pos < self.back {
            self.pos += 1;
            Some(E::new(self.vals[self.pos - 1]))
        } else {
            None
        }
    }
    fn size_hint(&self) -> (usize, Option<usize>) {
        let r = self.rem();
        match self.hint {
            Hint::Exact => (r, Some(r)),
            Hint::Zero => (0, Some(r)),
            Hint::TooLow => (r / 2, Some(r / 2)),
            Hint::TooHigh => (r + 3, Some(r + 7)),
            Hint::Unbounded => (0, None),
        }
    }
}

impl<E: Elem> DoubleEndedIterator for Scripted<E> {
    fn next_back(&mut self) -> Option<E> {
        elem::tick();
        if self.pos < self.back {
            self.back -= 1;
            Some(E::new(self.vals[self.back]))
        } else {
            None
        }
    }
}

impl<E: Elem> ExactSizeIterator for Scripted<E> {
    fn len(&self) -> usize {
        self.size_hint().0
    }
}
