//! One interface over the five vector-like types so that the operation executor is written once.

use std::ops::Bound;

use bump_scope::traits::{BumpAllocatorTyped, BumpAllocatorTypedScope, MutBumpAllocatorTyped, MutBumpAllocatorTypedScope};
use bump_scope::{BumpBox, BumpVec, FixedBumpVec, MutBumpVec, MutBumpVecRev};

use crate::elem::Elem;
use crate::iters::Scripted;

#[derive(Clone, Copy, PartialEq, Eq, Debug)]
pub enum VKind {
    Boxed = 0,
    Fixed = 1,
    Vec = 2,
    MutVec = 3,
    MutVecRev = 4,
}

pub const KIND_NAMES: [&str; 5] = ["BumpBox<[T]>", "FixedBumpVec", "BumpVec", "MutBumpVec", "MutBumpVecRev"];

pub type R = (Bound<usize>, Bound<usize>);

/// How a draining iterator is consumed before it is dropped.
#[derive(Clone, Copy, Debug)]
pub struct Consume {
    pub front: usize,
    pub back: usize,
    /// 0 = drop, 1 = mem::forget, 2 = keep_rest (drain only)
    pub end: u8,
}

pub fn unsupported<T>() -> T {
    sim::runner::harness_bug("operation not supported by this vector kind".into())
}

pub trait VecApi<E: Elem> {
    const KIND: VKind;
    const GROWS: bool = true;
    const HAS_RETAIN: bool = true;
    const CAN_REALLOC: bool = true;

    #[inline]

    fn slice(&self) -> &[E];
    #[inline]
    fn cap(&self) -> usize;
    #[inline]
    fn data_ptr(&self) -> usize;

    #[inline]

    fn v_pop(&mut self) -> Option<E>;
    #[inline]
    fn v_pop_if(&mut self, f: &mut dyn FnMut(&mut E) -> bool) -> Option<E>;
    #[inline]
    fn v_remove(&mut self, i: usize) -> E;
    #[inline]
    fn v_swap_remove(&mut self, i: usize) -> E;
    #[inline]
    fn v_truncate(&mut self, n: usize);
    #[inline]
    fn v_clear(&mut self);

    #[inline]

    fn v_retain(&mut self, _f: &mut dyn FnMut(&mut E) -> bool) {
        unsupported()
    }
    #[inline]
    fn v_dedup_by_key(&mut self, _f: &mut dyn FnMut(&mut E) -> u32) {
        unsupported()
    }
    #[inline]
    fn v_dedup_by(&mut self, _f: &mut dyn FnMut(&mut E, &mut E) -> bool) {
        unsupported()
    }
    #[inline]
    fn v_dedup(&mut self) {
        unsupported()
    }
    /// Returns the ids yielded.
    #[inline]
    fn v_drain(&mut self, _r: R, _c: Consume) -> Vec<u32> {
        unsupported()
    }
    #[inline]
    fn v_extract_if(&mut self, _f: &mut dyn FnMut(&mut E) -> bool, _c: Consume) -> Vec<u32> {
        unsupported()
    }

    #[inline]

    fn v_push(&mut self, _e: E, _form: u8) -> Result<(), ()> {
        unsupported()
    }
    #[inline]
    fn v_insert(&mut self, _i: usize, _e: E, _form: u8) -> Result<(), ()> {
        unsupported()
    }
    #[inline]
    fn v_extend_from_slice_clone(&mut self, _s: &[E], _try: bool) -> Result<(), ()> {
        unsupported()
    }
    #[inline]
    fn v_extend_from_within_clone(&mut self, _r: R, _try: bool) -> Result<(), ()> {
        unsupported()
    }
    #[inline]
    fn v_resize(&mut self, _n: usize, _e: E, _try: bool) -> Result<(), ()> {
        unsupported()
    }
    #[inline]
    fn v_resize_with(&mut self, _n: usize, _f: &mut dyn FnMut() -> E, _try: bool) -> Result<(), ()> {
        unsupported()
    }
    #[inline]
    fn v_append_vec(&mut self, _src: Vec<E>, _try: bool) -> Result<(), ()> {
        unsupported()
    }
    #[inline]
    fn v_append_array(&mut self, _src: [E; 3], _try: bool) -> Result<(), ()> {
        unsupported()
    }
    #[inline]
    fn v_append_drain(&mut self, _src: &mut Vec<E>, _r: std::ops::Range<usize>, _try: bool) -> Result<(), ()> {
        unsupported()
    }
    #[inline]
    fn v_append_mut_vec(&mut self, _src: &mut Vec<E>, _try: bool) -> Result<(), ()> {
        unsupported()
    }
    #[inline]
    fn v_reserve(&mut self, _n: usize, _try: bool) -> Result<(), ()> {
        unsupported()
    }
    #[inline]
    fn v_reserve_exact(&mut self, _n: usize, _try: bool) -> Result<(), ()> {
        unsupported()
    }
    #[inline]
    fn v_extend(&mut self, _it: Scripted<E>) {
        unsupported()
    }
    #[inline]
    fn v_shrink_to_fit(&mut self) {
        unsupported()
    }
    #[inline]
    fn v_shrink_to(&mut self, _n: usize) {
        unsupported()
    }
}

fn m<T>(r: Result<T, bump_scope::alloc::AllocError>) -> Result<(), ()> {
    r.map(drop).map_err(drop)
}

macro_rules! shrink_methods {
    () => {
        #[inline]
        fn v_pop(&mut self) -> Option<E> {
            self.pop()
        }
        #[inline]
        fn v_remove(&mut self, i: usize) -> E {
            self.remove(i)
        }
        #[inline]
        fn v_swap_remove(&mut self, i: usize) -> E {
            self.swap_remove(i)
        }
        #[inline]
        fn v_truncate(&mut self, n: usize) {
            self.truncate(n)
        }
        #[inline]
        fn v_clear(&mut self) {
            self.clear()
        }
    };
}

macro_rules! pop_if_method {
    () => {
        #[inline]
        fn v_pop_if(&mut self, f: &mut dyn FnMut(&mut E) -> bool) -> Option<E> {
            self.pop_if(|e| f(e))
        }
    };
}

macro_rules! retain_methods {
    () => {
        #[inline]
        fn v_retain(&mut self, f: &mut dyn FnMut(&mut E) -> bool) {
            self.retain(|e| f(e))
        }
        #[inline]
        fn v_dedup_by_key(&mut self, f: &mut dyn FnMut(&mut E) -> u32) {
            self.dedup_by_key(|e| f(e))
        }
        #[inline]
        fn v_dedup_by(&mut self, f: &mut dyn FnMut(&mut E, &mut E) -> bool) {
            self.dedup_by(|a, b| f(a, b))
        }
        #[inline]
        fn v_dedup(&mut self) {
            self.dedup()
        }
        #[inline]
        fn v_drain(&mut self, r: R, c: Consume) -> Vec<u32> {
            let mut d = self.drain(r);
            let mut out = Vec::new();
            for _ in 0..c.front {
                match d.next() {
                    Some(e) => out.push(crate::iters::take_id(e)),
                    None => break,
                }
            }
            for _ in 0..c.back {
                match d.next_back() {
                    Some(e) => out.push(crate::iters::take_id(e)),
                    None => break,
                }
            }
            match c.end {
                1 => std::mem::forget(d),
                2 => d.keep_rest(),
                _ => drop(d),
            }
            out
        }
        #[inline]
        fn v_extract_if(&mut self, f: &mut dyn FnMut(&mut E) -> bool, c: Consume) -> Vec<u32> {
            let mut d = self.extract_if(|e| f(e));
            let mut out = Vec::new();
            for _ in 0..c.front {
                match d.next() {
                    Some(e) => out.push(crate::iters::take_id(e)),
                    None => break,
                }
            }
            if c.end == 1 {
                std::mem::forget(d);
            } else {
                drop(d);
            }
            out
        }
    };
}

macro_rules! growth_methods {
    () => {
        #[inline]
        fn v_push(&mut self, e: E, form: u8) -> Result<(), ()> {
            match form % 8 {
                0 => Ok(self.push(e)),
                1 => m(self.try_push(e)),
                2 => Ok(self.push_with(|| {
                    crate::elem::tick();
                    e
                })),
                3 => m(self.try_push_with(|| {
                    crate::elem::tick();
                    e
                })),
                4 => Ok(drop(self.push_mut(e))),
                5 => m(self.try_push_mut(e)),
                6 => Ok(drop(self.push_mut_with(|| {
                    crate::elem::tick();
                    e
                }))),
                _ => m(self.try_push_mut_with(|| {
                    crate::elem::tick();
                    e
                })),
            }
        }
        #[inline]
        fn v_insert(&mut self, i: usize, e: E, form: u8) -> Result<(), ()> {
            match form % 4 {
                0 => Ok(self.insert(i, e)),
                1 => m(self.try_insert(i, e)),
                2 => Ok(drop(self.insert_mut(i, e))),
                _ => m(self.try_insert_mut(i, e)),
            }
        }
        #[inline]
        fn v_extend_from_slice_clone(&mut self, s: &[E], try_: bool) -> Result<(), ()> {
            if try_ { m(self.try_extend_from_slice_clone(s)) } else { Ok(self.extend_from_slice_clone(s)) }
        }
        #[inline]
        fn v_extend_from_within_clone(&mut self, r: R, try_: bool) -> Result<(), ()> {
            if try_ { m(self.try_extend_from_within_clone(r)) } else { Ok(self.extend_from_within_clone(r)) }
        }
        #[inline]
        fn v_resize(&mut self, n: usize, e: E, try_: bool) -> Result<(), ()> {
            if try_ { m(self.try_resize(n, e)) } else { Ok(self.resize(n, e)) }
        }
        #[inline]
        fn v_resize_with(&mut self, n: usize, f: &mut dyn FnMut() -> E, try_: bool) -> Result<(), ()> {
            if try_ { m(self.try_resize_with(n, || f())) } else { Ok(self.resize_with(n, || f())) }
        }
        #[inline]
        fn v_append_vec(&mut self, src: Vec<E>, try_: bool) -> Result<(), ()> {
            if try_ { m(self.try_append(src)) } else { Ok(self.append(src)) }
        }
        #[inline]
        fn v_append_array(&mut self, src: [E; 3], try_: bool) -> Result<(), ()> {
            if try_ { m(self.try_append(src)) } else { Ok(self.append(src)) }
        }
        #[inline]
        fn v_append_drain(&mut self, src: &mut Vec<E>, r: std::ops::Range<usize>, try_: bool) -> Result<(), ()> {
            if try_ { m(self.try_append(src.drain(r))) } else { Ok(self.append(src.drain(r))) }
        }
        #[inline]
        fn v_append_mut_vec(&mut self, src: &mut Vec<E>, try_: bool) -> Result<(), ()> {
            if try_ { m(self.try_append(src)) } else { Ok(self.append(src)) }
        }
        #[inline]
        fn v_reserve(&mut self, n: usize, try_: bool) -> Result<(), ()> {
            if try_ { m(self.try_reserve(n)) } else { Ok(self.reserve(n)) }
        }
    };
}

macro_rules! reserve_exact_method {
    () => {
        #[inline]
        fn v_reserve_exact(&mut self, n: usize, try_: bool) -> Result<(), ()> {
            if try_ { m(self.try_reserve_exact(n)) } else { Ok(self.reserve_exact(n)) }
        }
        #[inline]
        fn v_extend(&mut self, it: Scripted<E>) {
            self.extend(it)
        }
    };
}

impl<'a, E: Elem> VecApi<E> for BumpBox<'a, [E]> {
    const KIND: VKind = VKind::Boxed;
    const GROWS: bool = false;
    const CAN_REALLOC: bool = false;
    #[inline]
    fn slice(&self) -> &[E] {
        self
    }
    #[inline]
    fn cap(&self) -> usize {
        self.len()
    }
    #[inline]
    fn data_ptr(&self) -> usize {
        self.as_ptr() as usize
    }
    #[inline]
    fn v_pop_if(&mut self, f: &mut dyn FnMut(&mut E) -> bool) -> Option<E> {
        // BumpBox<[T]> has no pop_if: same semantics from last_mut + pop
        let last = self.last_mut()?;
        if f(last) { self.pop() } else { None }
    }
    shrink_methods!();
    retain_methods!();
}

impl<'a, E: Elem> VecApi<E> for FixedBumpVec<'a, E> {
    const KIND: VKind = VKind::Fixed;
    const CAN_REALLOC: bool = false;
    #[inline]
    fn slice(&self) -> &[E] {
        self
    }
    #[inline]
    fn cap(&self) -> usize {
        self.capacity()
    }
    #[inline]
    fn data_ptr(&self) -> usize {
        self.as_ptr() as usize
    }
    shrink_methods!();
    pop_if_method!();
    retain_methods!();
    growth_methods!();
    #[inline]
    fn v_extend(&mut self, it: Scripted<E>) {
        self.extend(it)
    }
}

impl<'a, E: Elem, A: BumpAllocatorTypedScope<'a>> VecApi<E> for BumpVec<E, A> {
    const KIND: VKind = VKind::Vec;
    #[inline]
    fn slice(&self) -> &[E] {
        self
    }
    #[inline]
    fn cap(&self) -> usize {
        self.capacity()
    }
    #[inline]
    fn data_ptr(&self) -> usize {
        self.as_ptr() as usize
    }
    shrink_methods!();
    pop_if_method!();
    retain_methods!();
    growth_methods!();
    reserve_exact_method!();
    #[inline]
    fn v_shrink_to_fit(&mut self) {
        self.shrink_to_fit()
    }
    #[inline]
    fn v_shrink_to(&mut self, n: usize) {
        self.shrink_to(n)
    }
}

impl<'a, E: Elem, A: MutBumpAllocatorTypedScope<'a>> VecApi<E> for MutBumpVec<E, A> {
    const KIND: VKind = VKind::MutVec;
    #[inline]
    fn slice(&self) -> &[E] {
        self
    }
    #[inline]
    fn cap(&self) -> usize {
        self.capacity()
    }
    #[inline]
    fn data_ptr(&self) -> usize {
        self.as_ptr() as usize
    }
    shrink_methods!();
    pop_if_method!();
    retain_methods!();
    growth_methods!();
    reserve_exact_method!();
}

impl<'a, E: Elem, A: MutBumpAllocatorTypedScope<'a>> VecApi<E> for MutBumpVecRev<E, A> {
    const KIND: VKind = VKind::MutVecRev;
    const HAS_RETAIN: bool = false;
    #[inline]
    fn slice(&self) -> &[E] {
        self
    }
    #[inline]
    fn cap(&self) -> usize {
        self.capacity()
    }
    /// The *end* of the buffer is the stable address of a reverse vector.
    #[inline]
    fn data_ptr(&self) -> usize {
        self.as_ptr() as usize + self.len() * std::mem::size_of::<E>()
    }
    shrink_methods!();
    pop_if_method!();
    growth_methods!();
    reserve_exact_method!();
}

#[allow(unused)]
fn _bounds<A: BumpAllocatorTyped, B: MutBumpAllocatorTyped>() {}
