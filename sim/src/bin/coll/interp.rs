//! Interpreter state, reference model and the operation executor shared by all vector kinds.

use std::ops::Bound;
use std::panic::{AssertUnwindSafe, catch_unwind};

use sim::heap;
use sim::runner::{Caught, Stats, classify_panic, harness_bug};
use sim::trace::{Op, Trace, Violation};

use crate::elem::{self, Elem};
use crate::iters::{Hint, Scripted};
use crate::vecapi::*;

pub const OP_NAMES: &[&str] = &[
    "push", "insert", "remove", "swap_remove", "pop", "pop_if", "truncate", "clear", "resize", "resize_with", "ext_slice", "ext_within", "append",
    "reserve", "reserve_exact", "extend", "retain", "dedup_key", "dedup_by", "dedup", "drain", "extract_if", "shrink_to_fit", "shrink_to",
    "new", "drop", "split_off", "merge_back", "into_box", "into_iter", "map", "map_in_place", "splice", "noise", "finalize", "helper",
    "split_at", "partition", "convert", "part_op", "claim_ops", "flatten", "clone", "try_with", "split_spare",
];

pub const K_PUSH: u16 = 0;
pub const K_INSERT: u16 = 1;
pub const K_REMOVE: u16 = 2;
pub const K_SWAP_REMOVE: u16 = 3;
pub const K_POP: u16 = 4;
pub const K_POP_IF: u16 = 5;
pub const K_TRUNCATE: u16 = 6;
pub const K_CLEAR: u16 = 7;
pub const K_RESIZE: u16 = 8;
pub const K_RESIZE_WITH: u16 = 9;
pub const K_EXT_SLICE: u16 = 10;
pub const K_EXT_WITHIN: u16 = 11;
pub const K_APPEND: u16 = 12;
pub const K_RESERVE: u16 = 13;
pub const K_RESERVE_EXACT: u16 = 14;
pub const K_EXTEND: u16 = 15;
pub const K_RETAIN: u16 = 16;
pub const K_DEDUP_KEY: u16 = 17;
pub const K_DEDUP_BY: u16 = 18;
pub const K_DEDUP: u16 = 19;
pub const K_DRAIN: u16 = 20;
pub const K_EXTRACT_IF: u16 = 21;
pub const K_SHRINK_TO_FIT: u16 = 22;
pub const K_SHRINK_TO: u16 = 23;
pub const K_NEW: u16 = 24;
pub const K_DROP: u16 = 25;
pub const K_SPLIT_OFF: u16 = 26;
pub const K_MERGE_BACK: u16 = 27;
pub const K_INTO_BOX: u16 = 28;
pub const K_INTO_ITER: u16 = 29;
pub const K_MAP: u16 = 30;
pub const K_MAP_IN_PLACE: u16 = 31;
pub const K_SPLICE: u16 = 32;
pub const K_NOISE: u16 = 33;
pub const K_FINALIZE: u16 = 34;
pub const K_HELPER: u16 = 35;
pub const K_SPLIT_AT: u16 = 36;
pub const K_PARTITION: u16 = 37;
pub const K_CONVERT: u16 = 38;
pub const K_PART_OP: u16 = 39;
pub const K_CLAIM_OPS: u16 = 40;
pub const K_FLATTEN: u16 = 41;
pub const K_CLONE: u16 = 42;
pub const K_TRY_WITH: u16 = 43;
pub const K_SPLIT_SPARE: u16 = 44;

pub const LAST_COMMON: u16 = K_SHRINK_TO;

pub struct On {
    pub c06: bool,
    pub c07: bool,
    pub c08: bool,
    pub c15: bool,
    pub c16: bool,
    pub c14: bool,
    /// C01 in this world: collection buffers and split-off parts are live blocks like any other
    pub c01: bool,
}

pub struct Ctx<'t> {
    pub trace: &'t Trace,
    pub pc: usize,
    pub cur_op: usize,
    pub viols: Vec<Violation>,
    pub stats: &'t mut Stats,
    pub on: On,
    pub next_val: u32,
    pub rev: bool,
    pub zst: bool,
    pub faulty: bool,
    pub verbose: bool,
    /// a `Drop` impl panicked during the run: the statement allows values to be lost then
    pub drop_panicked: bool,
    /// the arena the vectors were created from is currently claimed (C14): every request for memory through
    /// the vectors' allocator handle must fail, by `Err` or by the unwinding "bump allocator is claimed" panic
    pub claimed: bool,
    /// some operation of this run failed for lack of memory (what C07 is about)
    pub had_failure: bool,
}

/// Capacity promise of `with_capacity` / `reserve` (C08).
#[derive(Clone, Copy, Debug, Default)]
pub struct Promise {
    pub upto: usize,
    pub ptr: usize,
    pub active: bool,
}

pub enum Outcome<T> {
    Ok(T),
    AllocFailed,
    Injected,
    LibPanic(String),
}

impl<'t> Ctx<'t> {
    pub fn new(trace: &'t Trace, stats: &'t mut Stats) -> Self {
        let p = trace.prop.as_str();
        let all = p == "ALL";
        let faulty = trace.param_or("fail_above", 0) != 0 || trace.param_or("budget", 0) != 0;
        Ctx {
            trace,
            pc: 0,
            cur_op: 0,
            viols: Vec::new(),
            stats,
            on: On { c06: all || p == "C06" || p == "C07", c07: all || p == "C07", c08: all || p == "C08" || p == "C07", c15: all || p == "C15", c16: all || p == "C16", c14: all || p == "C14", c01: all || p == "C01" },
            next_val: 1,
            rev: false,
            zst: false,
            faulty,
            verbose: std::env::var_os("SIM_VERBOSE").is_some(),
            drop_panicked: false,
            claimed: false,
            had_failure: false,
        }
    }

    pub fn viol(&mut self, class: &str, msg: String) {
        if self.viols.len() < 16 {
            sim::runner::early_violation(class, self.cur_op, &msg);
            self.viols.push(Violation { class: class.to_string(), op_index: self.cur_op, msg });
        }
    }

    pub fn next_op(&mut self) -> Option<Op> {
        if self.pc >= self.trace.ops.len() {
            return None;
        }
        self.cur_op = self.pc;
        self.pc += 1;
        self.stats.steps += 1;
        let op = self.trace.ops[self.cur_op].clone();
        self.stats.sig_mix(op.kind as u64);
        Some(op)
    }

    pub fn fresh_val(&mut self) -> u32 {
        // few distinct values so that dedup has something to do
        self.next_val += 1;
        if self.zst { 0 } else { 1 + (self.next_val.wrapping_mul(2654435761) >> 28) }
    }

    pub fn drain_errors(&mut self) {
        let errs = elem::with(|l| std::mem::take(&mut l.errors));
        if self.on.c06 {
            for (c, m) in errs {
                self.viol(c, m.clone());
                if self.on.c07 && self.had_failure {
                    // "nothing is leaked or double-dropped" after an allocation failure
                    let c7 = c.replace("C06/", "C07/ledger-");
                    self.viol(&c7, m);
                }
            }
        }
        let herrs: Vec<(&'static str, String)> = heap::with(0, |h| std::mem::take(&mut h.errors));
        if self.on.c07 {
            for (c, m) in herrs {
                let c = c.replace("C05/", "C07/heap-");
                self.viol(&c, m);
            }
        }
    }

    /// Runs one library call with the op's faults armed.
    pub fn call<T>(&mut self, op: &Op, drop_panics: bool, f: impl FnOnce() -> Result<T, ()>) -> Outcome<T> {
        heap::with(0, |h| h.begin_op(self.cur_op as u32 + 1, if op.fail_nth != 0 { Some(op.fail_nth) } else { None }, op.burst));
        elem::with(|l| l.begin_op(op.panic_at, drop_panics));
        let r = catch_unwind(AssertUnwindSafe(f));
        elem::with(|l| l.end_op());
        heap::with(0, |h| h.end_op());
        match r {
            Ok(Ok(v)) => Outcome::Ok(v),
            Ok(Err(())) => {
                self.had_failure = true;
                Outcome::AllocFailed
            }
            Err(p) => match classify_panic(p) {
                Caught::Injected(n) => {
                    if n == u32::MAX {
                        self.drop_panicked = true;
                        self.stats.probe("fault.panic_in_drop");
                    } else {
                        self.stats.probe("fault.callback_panic");
                    }
                    Outcome::Injected
                }
                Caught::Harness(m) => harness_bug(m),
                Caught::Library(m) if self.claimed && m.contains("bump allocator is claimed") => {
                    // the documented report of a claimed arena by a panicking method; same obligations as a clean
                    // failure: nothing may have changed
                    self.stats.probe("claim.request_unwound_claimed");
                    Outcome::AllocFailed
                }
                Caught::Library(m) => Outcome::LibPanic(m),
            },
        }
    }

    pub fn refusals_in_op(&self) -> usize {
        let op = self.cur_op as u32 + 1;
        heap::with(0, |h| h.refusals.iter().filter(|r| r.op == op).count())
    }

    /// May the panicking form be used (no refusal can happen)?
    pub fn panicking_ok(&self, op: &Op) -> bool {
        !self.faulty && op.fail_nth == 0 && op.burst == 0
    }
}

/// Index argument biased towards boundaries.
pub fn idx_arg(x: u64, len: usize) -> usize {
    match x % 8 {
        0 => 0,
        1 => len.saturating_sub(1),
        2 => len,
        3 => len + 1,
        4 => usize::MAX,
        _ => (x / 8) as usize % (len + 1),
    }
}

pub fn range_arg(a: u64, b: u64, len: usize) -> (R, Option<(usize, usize)>) {
    // returns the bounds and, if valid, the concrete range
    let s = idx_arg(a, len);
    let e = idx_arg(b, len);
    let kind = (a / 64 + b / 64) % 6;
    let r: R = match kind {
        0 => (Bound::Included(s), Bound::Excluded(e)),
        1 => (Bound::Unbounded, Bound::Excluded(e)),
        2 => (Bound::Included(s), Bound::Unbounded),
        3 => (Bound::Unbounded, Bound::Unbounded),
        4 => (Bound::Included(s), Bound::Included(e)),
        _ => (Bound::Excluded(s), Bound::Excluded(e)),
    };
    let start = match r.0 {
        Bound::Included(s) => Some(s),
        Bound::Excluded(s) => s.checked_add(1),
        Bound::Unbounded => Some(0),
    };
    let end = match r.1 {
        Bound::Included(e) => e.checked_add(1),
        Bound::Excluded(e) => Some(e),
        Bound::Unbounded => Some(len),
    };
    let valid = match (start, end) {
        (Some(s), Some(e)) if s <= e && e <= len => Some((s, e)),
        _ => None,
    };
    (r, valid)
}

#[inline]
pub fn vals_of<E: Elem>(s: &[E]) -> Vec<u32> {
    s.iter().map(|e| e.val()).collect()
}

#[inline]
pub fn ids_of<E: Elem>(s: &[E]) -> Vec<u32> {
    s.iter().map(|e| e.id()).collect()
}

/// After an injected unwind the statement promises no particular contents: only that nothing is
/// dropped twice or lost. The elements still in the vector must be live and distinct.
#[inline]
pub fn resync<E: Elem, V: VecApi<E>>(ctx: &mut Ctx, v: &V, m: &mut Vec<u32>) {
    let ids = ids_of(v.slice());
    if !E::ZST && ctx.on.c06 {
        let mut sorted = ids.clone();
        sorted.sort_unstable();
        if sorted.windows(2).any(|w| w[0] == w[1]) {
            ctx.viol("C06/duplicate-after-unwind", format!("after an unwound operation the vector holds the same element twice: {ids:?}"));
        }
        for &id in &ids {
            if !elem::with(|l| l.is_live(id)) {
                ctx.viol("C06/dead-element-in-collection", format!("after an unwound operation the vector holds element {id} which is not live"));
            }
        }
    }
    *m = vals_of(v.slice());
}

#[inline]
pub fn compare<E: Elem, V: VecApi<E>>(ctx: &mut Ctx, v: &V, m: &[u32], what: &str) {
    if !ctx.on.c08 {
        return;
    }
    let got = vals_of(v.slice());
    if got.len() != m.len() {
        ctx.viol("C08/len-mismatch", format!("{what}: len {} but the model has {}", got.len(), m.len()));
    } else if got != m {
        let i = got.iter().zip(m.iter()).position(|(a, b)| a != b).unwrap();
        ctx.viol("C08/contents-mismatch", format!("{what}: element {i} has value {} but the model has {} (len {})", got[i], m[i], m.len()));
    }
    if v.cap() < v.slice().len() {
        ctx.viol("C08/capacity-below-len", format!("{what}: capacity {} < len {}", v.cap(), v.slice().len()));
    }
    if E::ZST && V::KIND != VKind::Boxed && v.cap() != usize::MAX {
        ctx.viol("C08/zst-capacity", format!("{what}: capacity of a vector of zero-sized elements is {}", v.cap()));
    }
}

#[inline]
pub fn check_promise<E: Elem, V: VecApi<E>>(ctx: &mut Ctx, v: &V, p: &mut Promise, what: &str) {
    if !p.active || E::ZST {
        return;
    }
    let len = v.slice().len();
    if len > p.upto {
        p.active = false;
        return;
    }
    if !ctx.on.c08 {
        return;
    }
    if v.cap() < p.upto {
        ctx.viol("C08/capacity-promise", format!("{what}: capacity {} is below what with_capacity/reserve promised ({})", v.cap(), p.upto));
    }
    if v.data_ptr() != p.ptr {
        ctx.viol("C08/realloc-within-promise", format!("{what}: the buffer moved although len {} is within the promised capacity {}", len, p.upto));
    }
}

// ------------------------------------------------------------------ model of the sequence (slice order)

pub struct Model;

impl Model {
    pub fn push(m: &mut Vec<u32>, rev: bool, x: u32) {
        if rev { m.insert(0, x) } else { m.push(x) }
    }
    pub fn pop(m: &mut Vec<u32>, rev: bool) -> Option<u32> {
        if rev {
            if m.is_empty() { None } else { Some(m.remove(0)) }
        } else {
            m.pop()
        }
    }
    pub fn last(m: &[u32], rev: bool) -> Option<u32> {
        if rev { m.first().copied() } else { m.last().copied() }
    }
    pub fn swap_remove(m: &mut Vec<u32>, rev: bool, i: usize) -> u32 {
        if rev {
            let x = m[i];
            m[i] = m[0];
            m.remove(0);
            x
        } else {
            m.swap_remove(i)
        }
    }
    pub fn truncate(m: &mut Vec<u32>, rev: bool, n: usize) {
        if n >= m.len() {
            return;
        }
        if rev {
            let cut = m.len() - n;
            m.drain(..cut);
        } else {
            m.truncate(n)
        }
    }
    pub fn extend(m: &mut Vec<u32>, rev: bool, xs: &[u32]) {
        if rev {
            let mut n = xs.to_vec();
            n.extend_from_slice(m);
            *m = n;
        } else {
            m.extend_from_slice(xs)
        }
    }
    pub fn resize(m: &mut Vec<u32>, rev: bool, n: usize, x: u32) {
        if n <= m.len() {
            Self::truncate(m, rev, n)
        } else {
            let add = vec![x; n - m.len()];
            Self::extend(m, rev, &add)
        }
    }
}

/// Executes one of the operations every vector kind shares. Returns false if the op kind is not a common one.
#[inline]
pub fn exec_common<E: Elem, V: VecApi<E>>(ctx: &mut Ctx, v: &mut V, m: &mut Vec<u32>, p: &mut Promise, op: &Op) -> bool {
    let rev = V::KIND == VKind::MutVecRev;
    let len = m.len();
    let k = op.kind;
    if k > LAST_COMMON {
        return false;
    }
    let grows = matches!(k, K_PUSH | K_INSERT | K_RESIZE | K_RESIZE_WITH | K_EXT_SLICE | K_EXT_WITHIN | K_APPEND | K_RESERVE | K_RESERVE_EXACT | K_EXTEND);
    if grows && !V::GROWS {
        return true;
    }
    if matches!(k, K_RETAIN | K_DEDUP_KEY | K_DEDUP_BY | K_DEDUP | K_DRAIN | K_EXTRACT_IF) && !V::HAS_RETAIN {
        return true;
    }
    if matches!(k, K_RESERVE_EXACT) && V::KIND == VKind::Fixed {
        return true;
    }
    if matches!(k, K_SHRINK_TO_FIT | K_SHRINK_TO) && V::KIND != VKind::Vec {
        return true;
    }
    // id budget of the one-byte element type
    if elem::with(|l| l.ids_left()) < 2 * len + 64 && grows {
        return true;
    }
    if len > 60 && grows {
        return true;
    }
    let name = OP_NAMES[k as usize];
    ctx.stats.bump(&format!("op.{name}"));
    let try_forced = !ctx.panicking_ok(op);
    // did the operation go through a try_-prefixed method (those must never unwind on their own, C07)
    let mut used_try = try_forced;
    let ptr_before = v.data_ptr();
    let mut want_panic = false;
    let mut voids_promise = false;
    let mut expect: Vec<u32> = m.clone();
    // what the fixed-capacity kinds can still take
    let room = if V::KIND == VKind::Fixed { v.cap().saturating_sub(len) } else { usize::MAX };
    let mut fixed_full = false;
    let mut ret_check: Option<(Option<u32>, Option<u32>)> = None; // (expected, got)
    let drop_panics = op.a[5] & 1 == 1 && op.panic_at != 0;

    let out: Outcome<()> = match k {
        K_PUSH => {
            let x = ctx.fresh_val();
            let form = if try_forced { op.a[1] as u8 | 1 } else { op.a[1] as u8 };
            used_try = form & 1 == 1;
            fixed_full = room < 1;
            Model::push(&mut expect, rev, x);
            let e = E::new(x);
            ctx.call(op, drop_panics, || v.v_push(e, form))
        }
        K_INSERT => {
            let i = idx_arg(op.a[0], len);
            let x = ctx.fresh_val();
            let form = if try_forced { op.a[1] as u8 | 1 } else { op.a[1] as u8 };
            used_try = form & 1 == 1;
            if i > len {
                want_panic = true;
            } else {
                fixed_full = room < 1;
                expect.insert(i, x);
            }
            let e = E::new(x);
            ctx.call(op, drop_panics, || v.v_insert(i, e, form))
        }
        K_REMOVE => {
            let i = idx_arg(op.a[0], len);
            if i >= len {
                want_panic = true;
            }
            let exp = if i < len { Some(expect.remove(i)) } else { None };
            match ctx.call(op, drop_panics, || Ok(crate::iters::take_id(v.v_remove(i)))) {
                Outcome::Ok(id) => {
                    ret_check = Some((exp, Some(elem::with(|l| l.value_of(id)))));
                    Outcome::Ok(())
                }
                Outcome::AllocFailed => Outcome::AllocFailed,
                Outcome::Injected => Outcome::Injected,
                Outcome::LibPanic(s) => Outcome::LibPanic(s),
            }
        }
        K_SWAP_REMOVE => {
            let i = idx_arg(op.a[0], len);
            if i >= len {
                want_panic = true;
            }
            let exp = if i < len { Some(Model::swap_remove(&mut expect, rev, i)) } else { None };
            match ctx.call(op, drop_panics, || Ok(crate::iters::take_id(v.v_swap_remove(i)))) {
                Outcome::Ok(id) => {
                    ret_check = Some((exp, Some(elem::with(|l| l.value_of(id)))));
                    Outcome::Ok(())
                }
                Outcome::AllocFailed => Outcome::AllocFailed,
                Outcome::Injected => Outcome::Injected,
                Outcome::LibPanic(s) => Outcome::LibPanic(s),
            }
        }
        K_POP | K_POP_IF => {
            let yes = k == K_POP || op.a[0] & 1 == 1;
            let exp = if yes { Model::pop(&mut expect, rev) } else { None };
            let r = if k == K_POP {
                ctx.call(op, drop_panics, || Ok(v.v_pop().map(crate::iters::take_id)))
            } else {
                ctx.call(op, drop_panics, || {
                    Ok(v.v_pop_if(&mut |e| {
                        elem::access(e.id(), "pop_if predicate");
                        elem::tick();
                        yes
                    })
                    .map(crate::iters::take_id))
                })
            };
            match r {
                Outcome::Ok(id) => {
                    ret_check = Some((exp, id.map(|id| elem::with(|l| l.value_of(id)))));
                    Outcome::Ok(())
                }
                Outcome::AllocFailed => Outcome::AllocFailed,
                Outcome::Injected => Outcome::Injected,
                Outcome::LibPanic(s) => Outcome::LibPanic(s),
            }
        }
        K_TRUNCATE => {
            let n = idx_arg(op.a[0], len);
            Model::truncate(&mut expect, rev, n);
            ctx.call(op, drop_panics, || Ok(v.v_truncate(n)))
        }
        K_CLEAR => {
            expect.clear();
            ctx.call(op, drop_panics, || Ok(v.v_clear()))
        }
        K_RESIZE | K_RESIZE_WITH => {
            let n = (op.a[0] as usize) % 48;
            let x = ctx.fresh_val();
            let try_ = try_forced || op.a[1] & 1 == 1;
            used_try = try_;
            fixed_full = n > len && n - len > room;
            Model::resize(&mut expect, rev, n, x);
            if k == K_RESIZE {
                let e = E::new(x);
                ctx.call(op, drop_panics, || v.v_resize(n, e, try_))
            } else {
                ctx.call(op, drop_panics, || {
                    v.v_resize_with(
                        n,
                        &mut || {
                            elem::tick();
                            E::new(x)
                        },
                        try_,
                    )
                })
            }
        }
        K_EXT_SLICE => {
            let n = (op.a[0] as usize) % 12;
            let try_ = try_forced || op.a[1] & 1 == 1;
            used_try = try_;
            let xs: Vec<u32> = (0..n).map(|_| ctx.fresh_val()).collect();
            let src: Vec<E> = xs.iter().map(|&x| E::new(x)).collect();
            fixed_full = n > room;
            Model::extend(&mut expect, rev, &xs);
            let r = ctx.call(op, drop_panics, || v.v_extend_from_slice_clone(&src, try_));
            drop(src);
            r
        }
        K_EXT_WITHIN => {
            let (r, valid) = range_arg(op.a[0], op.a[1], len);
            let try_ = try_forced || op.a[2] & 1 == 1;
            used_try = try_;
            match valid {
                Some((s, e)) => {
                    fixed_full = e - s > room;
                    let xs = expect[s..e].to_vec();
                    Model::extend(&mut expect, rev, &xs);
                }
                None => want_panic = true,
            }
            ctx.call(op, drop_panics, || v.v_extend_from_within_clone(r, try_))
        }
        K_APPEND => {
            let n = (op.a[1] as usize) % 10;
            let try_ = try_forced || op.a[2] & 1 == 1;
            used_try = try_;
            match op.a[0] % 4 {
                0 => {
                    let xs = [ctx.fresh_val(), ctx.fresh_val(), ctx.fresh_val()];
                    fixed_full = 3 > room;
                    Model::extend(&mut expect, rev, &xs);
                    let src = [E::new(xs[0]), E::new(xs[1]), E::new(xs[2])];
                    ctx.call(op, drop_panics, || v.v_append_array(src, try_))
                }
                1 => {
                    let xs: Vec<u32> = (0..n).map(|_| ctx.fresh_val()).collect();
                    fixed_full = n > room;
                    Model::extend(&mut expect, rev, &xs);
                    let src: Vec<E> = xs.iter().map(|&x| E::new(x)).collect();
                    ctx.call(op, drop_panics, || v.v_append_vec(src, try_))
                }
                2 => {
                    let xs: Vec<u32> = (0..n + 2).map(|_| ctx.fresh_val()).collect();
                    let mut src: Vec<E> = xs.iter().map(|&x| E::new(x)).collect();
                    let (s, e) = (1.min(xs.len()), xs.len() - 1);
                    fixed_full = e - s > room;
                    Model::extend(&mut expect, rev, &xs[s..e]);
                    let r = ctx.call(op, drop_panics, || v.v_append_drain(&mut src, s..e, try_));
                    drop(src);
                    r
                }
                _ => {
                    let xs: Vec<u32> = (0..n).map(|_| ctx.fresh_val()).collect();
                    let mut src: Vec<E> = xs.iter().map(|&x| E::new(x)).collect();
                    fixed_full = n > room;
                    Model::extend(&mut expect, rev, &xs);
                    let r = ctx.call(op, drop_panics, || v.v_append_mut_vec(&mut src, try_));
                    if matches!(r, Outcome::Ok(())) && !src.is_empty() && ctx.on.c08 {
                        ctx.viol("C08/append-left-source", format!("append(&mut Vec) left {} elements in the source", src.len()));
                    }
                    if matches!(r, Outcome::AllocFailed) && src.len() != n && (ctx.on.c07 || ctx.on.c08) {
                        ctx.viol(if ctx.on.c07 { "C07/append-emptied-source-on-failure" } else { "C08/append-emptied-source-on-failure" }, format!("append(&mut Vec) failed but the source went from {n} to {} elements", src.len()));
                    }
                    drop(src);
                    r
                }
            }
        }
        K_RESERVE | K_RESERVE_EXACT => {
            let n = match op.a[0] % 8 {
                0 => 0,
                1 => usize::MAX,
                2 => usize::MAX / 2,
                3 => (isize::MAX as usize / std::mem::size_of::<E>().max(1)).saturating_sub(len + (op.a[0] / 8) as usize % 3),
                _ => (op.a[0] / 8) as usize % 64,
            };
            let try_ = try_forced || op.a[1] & 1 == 1 || n > 4096;
            used_try = try_;
            fixed_full = n > room;
            let r = if k == K_RESERVE { ctx.call(op, drop_panics, || v.v_reserve(n, try_)) } else { ctx.call(op, drop_panics, || v.v_reserve_exact(n, try_)) };
            if matches!(r, Outcome::Ok(())) && !E::ZST {
                if let Some(upto) = len.checked_add(n) {
                    *p = Promise { upto, ptr: v.data_ptr(), active: true };
                    if ctx.on.c08 && v.cap() < upto {
                        ctx.viol("C08/capacity-promise", format!("after reserve({n}) with len {len} the capacity is {}", v.cap()));
                    }
                    voids_promise = true; // a fresh promise: the buffer may have moved in this very op
                    ctx.stats.bump("c08.promise_made");
                } else if ctx.on.c07 {
                    ctx.viol("C07/overflow-not-reported", format!("reserve({n}) with len {len} overflows but returned Ok"));
                }
            }
            r
        }
        K_EXTEND => {
            let n = (op.a[0] as usize) % 12;
            if try_forced {
                return true; // `Extend` only exists in the panicking form
            }
            let xs: Vec<u32> = (0..n).map(|_| ctx.fresh_val()).collect();
            let hint = Hint::from(op.a[1]);
            if hint != Hint::Exact {
                ctx.stats.probe("iter.lying_size_hint");
            }
            // a fixed vector first reserves the lower bound of the (possibly lying) size hint
            fixed_full = n > room || (hint == Hint::TooHigh && n + 3 > room);
            if hint == Hint::TooHigh && len + n + 3 > p.upto {
                // the iterator announced more elements than the promise covers: reserving for them may move the buffer
                voids_promise = true;
            }
            if rev {
                for &x in &xs {
                    Model::push(&mut expect, true, x);
                }
            } else {
                expect.extend_from_slice(&xs);
            }
            let it = Scripted::<E>::new(xs, hint);
            ctx.call(op, drop_panics, || Ok(v.v_extend(it)))
        }
        K_RETAIN => {
            let pat = op.a[0];
            let keep = |i: usize, x: u32| -> bool { (pat >> (i % 16)) & 1 == 1 || (pat & 0x10000 != 0 && x % 2 == 0) };
            let mut i = 0;
            expect.retain(|&x| {
                i += 1;
                keep(i - 1, x)
            });
            let mut j = 0;
            ctx.call(op, drop_panics, || {
                Ok(v.v_retain(&mut |e| {
                    elem::access(e.id(), "retain predicate");
                    elem::tick();
                    j += 1;
                    keep(j - 1, e.val())
                }))
            })
        }
        K_DEDUP_KEY => {
            let md = 1 + op.a[0] as u32 % 4;
            expect.dedup_by_key(|x| *x % md);
            ctx.call(op, drop_panics, || {
                Ok(v.v_dedup_by_key(&mut |e| {
                    elem::access(e.id(), "dedup key");
                    elem::tick();
                    e.val() % md
                }))
            })
        }
        K_DEDUP_BY => {
            let md = 1 + op.a[0] as u32 % 4;
            // an equivalence (same residue) or a non-transitive relation (values close to each other): with the latter
            // it matters that an element is compared with the last *kept* element, as std does
            let close = op.a[1] % 2 == 1;
            let same = move |a: u32, b: u32| if close { a.abs_diff(b) <= md } else { a % md == b % md };
            expect.dedup_by(|a, b| same(*a, *b));
            ctx.call(op, drop_panics, || {
                Ok(v.v_dedup_by(&mut |a, b| {
                    elem::access(a.id(), "dedup_by");
                    elem::access(b.id(), "dedup_by");
                    elem::tick();
                    same(a.val(), b.val())
                }))
            })
        }
        K_DEDUP => {
            expect.dedup();
            ctx.call(op, drop_panics, || Ok(v.v_dedup()))
        }
        K_DRAIN => {
            let (r, valid) = range_arg(op.a[0], op.a[1], len);
            let c = Consume { front: op.a[2] as usize % 5, back: op.a[3] as usize % 4, end: (op.a[4] % 3) as u8 };
            let mut exp_yield: Vec<u32> = Vec::new();
            match valid {
                Some((s, e)) => {
                    let n = e - s;
                    let f = c.front.min(n);
                    let b = c.back.min(n - f);
                    exp_yield.extend_from_slice(&expect[s..s + f]);
                    exp_yield.extend(expect[e - b..e].iter().rev());
                    match c.end {
                        1 => {
                            // forgotten: the vector keeps only the head (documented leak amplification)
                            expect.truncate(s);
                        }
                        2 => {
                            // keep_rest: unyielded elements stay
                            expect.drain(e - b..e);
                            expect.drain(s..s + f);
                        }
                        _ => {
                            expect.drain(s..e);
                        }
                    }
                }
                None => want_panic = true,
            }
            let forgot = c.end == 1;
            let ids_before = if forgot { ids_of(v.slice()) } else { Vec::new() };
            match ctx.call(op, drop_panics, || Ok(v.v_drain(r, c))) {
                Outcome::Ok(ids) => {
                    let got: Vec<u32> = ids.iter().map(|&id| elem::with(|l| l.value_of(id))).collect();
                    if ctx.on.c08 && !E::ZST && got != exp_yield {
                        ctx.viol("C08/drain-yield", format!("drain yielded values {got:?}, the model expects {exp_yield:?}"));
                    }
                    if forgot {
                        // the unyielded elements and the tail were leaked by mem::forget(drain)
                        if E::ZST {
                            let lost = (len - v.slice().len() - ids.len()) as i64;
                            elem::with(|l| {
                                l.zst_live -= lost;
                                l.zst_leaked += lost
                            });
                        } else {
                            let still: Vec<u32> = ids_of(v.slice());
                            for id in &ids_before {
                                if !still.contains(id) {
                                    elem::with(|l| l.mark_leaked(*id));
                                }
                            }
                        }
                        ctx.stats.probe("leak.forgot_drain");
                    }
                    Outcome::Ok(())
                }
                Outcome::AllocFailed => Outcome::AllocFailed,
                Outcome::Injected => Outcome::Injected,
                Outcome::LibPanic(s) => Outcome::LibPanic(s),
            }
        }
        K_EXTRACT_IF => {
            let pat = op.a[0];
            let c = Consume { front: op.a[1] as usize % 8, back: 0, end: 0 };
            let take = |i: usize| (pat >> (i % 16)) & 1 == 1;
            // the iterator is lazy: only as many matches as are consumed get extracted
            let mut exp_yield = Vec::new();
            let mut kept = Vec::new();
            for (i, &x) in expect.iter().enumerate() {
                if exp_yield.len() < c.front && take(i) {
                    exp_yield.push(x);
                } else {
                    kept.push(x);
                }
            }
            expect = kept;
            let mut j = 0;
            match ctx.call(op, drop_panics, || {
                Ok(v.v_extract_if(
                    &mut |e| {
                        elem::access(e.id(), "extract_if predicate");
                        elem::tick();
                        j += 1;
                        take(j - 1)
                    },
                    c,
                ))
            }) {
                Outcome::Ok(ids) => {
                    let got: Vec<u32> = ids.iter().map(|&id| elem::with(|l| l.value_of(id))).collect();
                    if ctx.on.c08 && !E::ZST && got != exp_yield {
                        ctx.viol("C08/extract-if-yield", format!("extract_if yielded values {got:?}, the model expects {exp_yield:?}"));
                    }
                    Outcome::Ok(())
                }
                Outcome::AllocFailed => Outcome::AllocFailed,
                Outcome::Injected => Outcome::Injected,
                Outcome::LibPanic(s) => Outcome::LibPanic(s),
            }
        }
        K_SHRINK_TO_FIT => {
            voids_promise = true;
            ctx.call(op, drop_panics, || Ok(v.v_shrink_to_fit()))
        }
        K_SHRINK_TO => {
            voids_promise = true;
            let n = idx_arg(op.a[0], len + 8);
            ctx.call(op, drop_panics, || Ok(v.v_shrink_to(n)))
        }
        _ => return false,
    };

    ctx.drain_errors();
    let what = format!("{} on {}", name, KIND_NAMES[V::KIND as usize]);
    match out {
        Outcome::Ok(()) => {
            if want_panic {
                if ctx.on.c08 {
                    ctx.viol("C08/panic-mismatch", format!("{what}: std's Vec panics for these arguments (len {len}), this call returned"));
                }
                resync(ctx, v, m);
            } else if fixed_full && V::KIND == VKind::Fixed {
                if ctx.on.c08 {
                    ctx.viol("C08/fixed-grew", format!("{what}: succeeded although the fixed vector has no room (len {len}, capacity {})", v.cap()));
                }
                resync(ctx, v, m);
            } else {
                *m = expect;
                compare(ctx, v, m, &what);
                if let Some((e, g)) = ret_check {
                    if ctx.on.c08 && !E::ZST && e != g {
                        ctx.viol("C08/return-value", format!("{what}: returned {g:?}, the model returned {e:?}"));
                    }
                }
            }
        }
        Outcome::AllocFailed => {
            // legitimate reasons: refusal by the base allocator, full fixed vector, size overflow
            let refused = ctx.refusals_in_op() > 0;
            let huge = matches!(k, K_RESERVE | K_RESERVE_EXACT) && op.a[0] % 8 >= 1 && op.a[0] % 8 <= 3;
            if refused {
                ctx.stats.probe("fault.op_failed_cleanly");
            } else if fixed_full || huge {
                ctx.stats.probe("fail.fixed_full_or_overflow");
            } else {
                ctx.stats.bump("fail.without_refusal");
            }
            if want_panic && ctx.on.c08 {
                // an invalid index must be reported by a panic even in the try_ form (as std does)
                ctx.viol("C08/panic-mismatch", format!("{what}: invalid arguments produced an allocation error instead of a panic"));
            }
            if ctx.claimed && k == K_EXTEND && Hint::from(op.a[1]) != Hint::Exact {
                // `Extend::extend` reserves for the announced lower bound and then pushes one by one; with a size hint
                // that is too low the request for more memory comes after some elements were pushed (same as std's
                // Vec when an iterator panics half-way): old contents + a prefix of the new elements
                let got = vals_of(v.slice());
                let keep = &expect[..got.len().min(expect.len())];
                if (ctx.on.c07 || ctx.on.c08 || ctx.on.c14) && (got.len() < len || got != keep) {
                    let class = if ctx.on.c14 { "C14/collection-changed-while-claimed" } else if ctx.on.c07 { "C07/collection-changed-on-failure" } else { "C08/collection-changed-on-failure" };
                    ctx.viol(class, format!("{what} on a claimed arena failed and left {} elements that are not old contents + a prefix of the new ones", got.len()));
                }
                *m = got;
            } else
            // the collection must be exactly as before
            if ctx.on.c07 || ctx.on.c08 || ctx.on.c14 {
                let got = vals_of(v.slice());
                if got != *m {
                    let class = if ctx.claimed && ctx.on.c14 { "C14/collection-changed-while-claimed" } else if ctx.on.c07 { "C07/collection-changed-on-failure" } else { "C08/collection-changed-on-failure" };
                    ctx.viol(class, format!("{what} failed but the vector changed: {} -> {} elements", m.len(), got.len()));
                    resync(ctx, v, m);
                }
                if V::KIND != VKind::MutVecRev && !E::ZST && v.data_ptr() != ptr_before && !m.is_empty() {
                    // moving is allowed, losing data is not: contents were compared above
                }
            }
        }
        Outcome::Injected => {
            ctx.stats.probe("unwind.injected");
            resync(ctx, v, m);
            p.active = false;
        }
        Outcome::LibPanic(msg) => {
            let full_panic = fixed_full && V::KIND == VKind::Fixed;
            let overflow = msg.contains("capacity overflow");
            if full_panic && k == K_EXTEND {
                // `Extend::extend` cannot know the length of an arbitrary iterator in advance: it pushes until the
                // fixed vector is full and then panics. The elements pushed so far stay (a prefix of the new ones).
                ctx.stats.probe("panic.expected_library_panic");
                let got = vals_of(v.slice());
                let keep = &expect[..got.len().min(expect.len())];
                if ctx.on.c08 && (got.len() < len || got != keep) {
                    ctx.viol("C08/contents-mismatch", format!("{what}: after the fixed vector filled up it holds {} elements that are not old contents + a prefix of the new ones", got.len()));
                }
                *m = got;
            } else if want_panic || full_panic || overflow {
                ctx.stats.probe("panic.expected_library_panic");
                // std leaves the vector untouched when an argument is out of range
                if (ctx.on.c08 || ctx.on.c07) && vals_of(v.slice()) != *m {
                    let class = if ctx.on.c07 { "C07/collection-changed-on-failure" } else { "C08/changed-by-rejected-call" };
                    ctx.viol(class, format!("{what} panicked ({msg}) but the vector changed"));
                    resync(ctx, v, m);
                }
            } else {
                if ctx.on.c08 {
                    ctx.viol("C08/panic-mismatch", format!("{what}: panicked ({msg}) where std's Vec does not (len {len})"));
                }
                if ctx.on.c07 && used_try {
                    ctx.viol("C07/try-method-unwound", format!("{what} (try_ form): panicked: {msg}"));
                }
                resync(ctx, v, m);
            }
        }
    }
    {
        let l = v.slice().len() as u64;
        let spare = if E::ZST { 0 } else { (v.cap() - v.slice().len()).min(15) as u64 };
        ctx.stats.state(sim::rng::mix(sim::rng::mix(V::KIND as u64 * 64 + k as u64, l), spare * 4 + p.active as u64 * 2 + E::ZST as u64));
    }
    if voids_promise && !matches!(k, K_RESERVE | K_RESERVE_EXACT) {
        p.active = false;
    }
    if !matches!(k, K_RESERVE | K_RESERVE_EXACT) {
        check_promise(ctx, v, p, &what);
    }
    if V::KIND == VKind::Fixed && !E::ZST && v.data_ptr() != ptr_before && ctx.on.c08 {
        ctx.viol("C08/fixed-reallocated", format!("{what}: the buffer of a fixed vector moved"));
    }
    true
}

