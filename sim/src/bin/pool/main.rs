//! Pool world (C19): `BumpPool` under shuttle's controlled scheduler.
//!
//! Under `--cfg bump_scope_verif` the pool's mutex is `shuttle::sync::Mutex` (the one guarded hook in /repo),
//! and every base-allocator call is a scheduling point, so a seeded scheduler decides every interleaving of
//! `get` / allocate / guard drop / re-`get`. One run = one plan (from the run seed) under one schedule (from
//! the schedule seed): (trace) -> exactly one execution, replayable from the trace alone.

use std::alloc::Layout;
use std::panic::{AssertUnwindSafe, catch_unwind};
use std::ptr::NonNull;
use std::sync::Mutex as StdMutex;
use std::sync::atomic::{AtomicUsize, Ordering::SeqCst};
use std::time::Duration;

use bump_scope::alloc::{AllocError, Allocator};
use bump_scope::settings::BumpSettings;
use bump_scope::{BumpPool, BumpPoolGuard};
use shuttle::scheduler::{PctScheduler, RandomScheduler};
use shuttle::sync::Arc;

use sim::heap::{self, Policy};
use sim::rng::Rng;
use sim::runner::{Stats, Tier, World, main_for, take_last_panic};
use sim::trace::{Op, Trace, Violation};

const OP_NAMES: &[&str] = &["round", "final"];
const K_ROUND: u16 = 0;
const K_FINAL: u16 = 1;

/// `Send + Sync` base allocator for the pool: all arenas of the pool share SimHeap 0. Every call is a scheduling point.
#[derive(Debug, Clone)]
pub struct HS(u64);

impl Default for HS {
    fn default() -> Self {
        HS(0x5148_4541_5021_00AA)
    }
}

unsafe impl Allocator for HS {
    fn allocate(&self, layout: Layout) -> Result<NonNull<[u8]>, AllocError> {
        shuttle::thread::sleep(Duration::ZERO);
        if self.0 != 0x5148_4541_5021_00AA {
            heap::with(0, |h| h.handle_magic_bad += 1);
        }
        heap::with(0, |h| h.allocate(layout))
    }
    unsafe fn deallocate(&self, ptr: NonNull<u8>, layout: Layout) {
        heap::with(0, |h| h.deallocate(ptr, layout))
    }
}

struct BlockRef {
    ptr: usize,
    len: usize,
    tag: u8,
    arena: usize,
    thread: usize,
}

#[derive(Default)]
struct Shared {
    live_arenas: Vec<usize>,
    arenas_seen: Vec<usize>,
    blocks: Vec<BlockRef>,
    viols: Vec<(String, String)>,
    events: Vec<(usize, u8, usize)>,
    forgotten: usize,
    got_calls: u64,
    poisoning_gets: u64,
    scoped_rounds: u64,
}

static SHARED: StdMutex<Option<Shared>> = StdMutex::new(None);
static CONSERVATIVE_LIVE: AtomicUsize = AtomicUsize::new(0);
static PEAK_LIVE: AtomicUsize = AtomicUsize::new(0);

fn shared<R>(f: impl FnOnce(&mut Shared) -> R) -> R {
    let mut g = SHARED.lock().unwrap_or_else(|e| e.into_inner());
    f(g.as_mut().unwrap())
}

fn viol(class: &str, msg: String) {
    sim::runner::early_violation(class, usize::MAX, &msg);
    shared(|s| s.viols.push((class.to_string(), msg)));
}

#[derive(Clone, Debug)]
struct Round {
    thread: usize,
    variant: u64,
    nblocks: usize,
    size: usize,
    forget: bool,
    yield_inside: bool,
    /// the round's allocations happen inside a scope of the guard: chunks grow, nothing stays allocated
    scoped: bool,
}

type S = BumpSettings<1, true, true, true, true, true, 1>;
type SD = BumpSettings<8, false, true, true, true, true, 512>;

fn fill_byte(tag: u8, i: usize) -> u8 {
    tag.wrapping_add((i * 7) as u8) | 1
}

fn arena_id<Sx: bump_scope::settings::BumpAllocatorSettings>(g: &BumpPoolGuard<'_, HS, Sx>) -> usize {
    g.stats().small_to_big().next().map_or(0, |c| c.chunk_start().as_ptr() as usize)
}

fn do_round<Sx: bump_scope::settings::BumpAllocatorSettings>(pool: &BumpPool<HS, Sx>, r: &Round, try_only: bool)
where
    HS: bump_scope::BaseAllocator<Sx::GuaranteedAllocated>,
{
    // conservative count of live guards: incremented before `get` is called, decremented after `drop` returned
    let n = CONSERVATIVE_LIVE.fetch_add(1, SeqCst) + 1;
    PEAK_LIVE.fetch_max(n, SeqCst);
    let variant = if try_only { r.variant | 1 } else { r.variant };
    let mut pre: Option<BumpPoolGuard<'_, HS, Sx>> = None;
    if r.variant % 16 == 15 {
        // A `get` that panics inside the pool when it has to create an arena (capacity overflow), i.e. while the
        // pool's lock is held: the pool must keep working afterwards. (Only generated for single-threaded plans:
        // shuttle's mutex cannot model a panic of the lock holder while other tasks wait for the lock.)
        let res = catch_unwind(AssertUnwindSafe(|| pool.get_with_size(usize::MAX)));
        take_last_panic();
        shared(|s| s.poisoning_gets += 1);
        match res {
            Ok(g) => pre = Some(g), // an idle arena was handed out, the size hint was not needed
            Err(_) => {
                CONSERVATIVE_LIVE.fetch_sub(1, SeqCst);
                return;
            }
        }
    }
    let guard: Option<BumpPoolGuard<'_, HS, Sx>> = if pre.is_some() { pre } else { match variant % 6 {
        0 => Some(pool.get()),
        1 => pool.try_get().ok(),
        2 => Some(pool.get_with_size(r.size * 3)),
        3 => pool.try_get_with_size(r.size * 3).ok(),
        4 => Some(pool.get_with_capacity(Layout::from_size_align(r.size.max(1), 8).unwrap())),
        _ => pool.try_get_with_capacity(Layout::from_size_align(r.size.max(1), 8).unwrap()).ok(),
    } };
    let Some(mut guard) = guard else {
        CONSERVATIVE_LIVE.fetch_sub(1, SeqCst);
        return;
    };
    let id = arena_id(&guard);
    shared(|s| {
        s.got_calls += 1;
        if s.live_arenas.contains(&id) {
            s.viols.push(("C19/arena-shared".into(), format!("thread {} got an arena (first chunk {:#x}) that another live guard already refers to", r.thread, heap::with(0, |h| h.off(id)))));
        }
        s.live_arenas.push(id);
        if !s.arenas_seen.contains(&id) {
            s.arenas_seen.push(id);
        }
        s.events.push((r.thread, 0, id));
    });
    if r.scoped {
        // everything of this round lives in a scope: afterwards the arena may own several chunks with nothing allocated
        let (nblocks, size, th) = (r.nblocks, r.size, r.thread);
        let ok = guard.scoped(|s| {
            let mut made: Vec<(*const u8, usize, u8)> = Vec::new();
            for k in 0..nblocks + 1 {
                let tag = (th * 41 + k * 13 + size) as u8;
                let bytes: Vec<u8> = (0..size + 300 * k).map(|i| fill_byte(tag, i)).collect();
                if let Ok(b) = s.try_alloc_slice_copy(&bytes) {
                    let sl = b.into_ref();
                    made.push((sl.as_ptr(), sl.len(), tag));
                }
            }
            made.iter().all(|&(p, n, tag)| (0..n).all(|i| unsafe { *p.add(i) } == fill_byte(tag, i)))
        });
        if !ok {
            viol("C19/data-changed", "a block allocated inside a scope of a pool guard changed before the scope ended".into());
        }
        shared(|s| s.scoped_rounds += 1);
    }
    for k in 0..if r.scoped { 0 } else { r.nblocks } {
        let tag = (r.thread * 37 + k * 11 + r.size) as u8;
        let bytes: Vec<u8> = (0..r.size + k).map(|i| fill_byte(tag, i)).collect();
        if r.yield_inside {
            shuttle::thread::sleep(Duration::ZERO);
        }
        if let Ok(b) = guard.try_alloc_slice_copy(&bytes) {
            let sl = b.into_ref();
            shared(|s| s.blocks.push(BlockRef { ptr: sl.as_ptr() as usize, len: sl.len(), tag, arena: id, thread: r.thread }));
        }
    }
    shared(|s| {
        s.live_arenas.retain(|a| *a != id);
        s.events.push((r.thread, 1, id));
    });
    if r.forget {
        // a forgotten guard keeps its arena for ever: it stays "live" for the peak count
        shared(|s| s.forgotten += 1);
        std::mem::forget(guard);
    } else {
        drop(guard);
        CONSERVATIVE_LIVE.fetch_sub(1, SeqCst);
    }
}

fn check_blocks(what: &str) {
    let bad = shared(|s| {
        for b in &s.blocks {
            for i in 0..b.len {
                let v = unsafe { *((b.ptr + i) as *const u8) };
                if v != fill_byte(b.tag, i) {
                    return Some(format!("{what}: byte +{i} of a {}-byte block allocated by thread {} through arena {:#x} changed", b.len, b.thread, heap::with(0, |h| h.off(b.arena))));
                }
            }
        }
        // no two blocks overlap
        let mut v: Vec<(usize, usize)> = s.blocks.iter().filter(|b| b.len > 0).map(|b| (b.ptr, b.ptr + b.len)).collect();
        v.sort_unstable();
        for w in v.windows(2) {
            if w[0].1 > w[1].0 {
                return Some(format!("{what}: two blocks handed out through the pool overlap"));
            }
        }
        None
    });
    if let Some(m) = bad {
        viol("C19/data-changed", m);
    }
}

fn scenario<Sx: bump_scope::settings::BumpAllocatorSettings + 'static>(plan: &[Vec<Round>], fin: u64, try_only: bool)
where
    HS: bump_scope::BaseAllocator<Sx::GuaranteedAllocated>,
{
    let pool: Arc<BumpPool<HS, Sx>> = Arc::new(BumpPool::new());
    let mut handles = Vec::new();
    for t in plan.iter().cloned() {
        let pool = pool.clone();
        handles.push(shuttle::thread::spawn(move || {
            for r in &t {
                do_round(&pool, r, try_only);
                shuttle::thread::sleep(Duration::ZERO);
            }
        }));
    }
    for h in handles {
        h.join().unwrap();
    }
    check_blocks("after all threads finished");
    let mut pool = Arc::try_unwrap(pool).ok().expect("pool still shared");
    let (created, forgotten) = shared(|s| (s.arenas_seen.len(), s.forgotten));
    let peak = PEAK_LIVE.load(SeqCst);
    let idle = pool.bumps().len();
    if created > peak {
        viol("C19/more-arenas-than-peak", format!("{created} arenas were created but at most {peak} guards were alive at the same time"));
    }
    if idle + forgotten != created {
        viol("C19/arena-lost", format!("{created} arenas created, {forgotten} guards forgotten, but {idle} arenas are in the pool"));
    }
    let out_before = heap::with(0, |h| h.outstanding());
    match fin % 3 {
        0 => {
            pool.reset();
            // reset keeps exactly one chunk per arena (forgotten arenas keep all of theirs)
            shared(|s| s.blocks.clear());
            let out = heap::with(0, |h| h.outstanding());
            let kept: usize = pool.bumps().iter().map(|b| b.stats().count()).sum();
            if pool.bumps().iter().any(|b| b.stats().count() != 1 || b.stats().allocated() != 0) {
                viol("C19/reset", "after BumpPool::reset an arena does not consist of exactly one empty chunk".into());
            }
            if forgotten == 0 && out != kept {
                viol("C19/reset", format!("after BumpPool::reset {out} blocks are outstanding, the arenas report {kept} chunks (before: {out_before})"));
            }
        }
        1 => {
            let nd = heap::with(0, |h| h.n_dealloc);
            pool.reset_to_start();
            shared(|s| s.blocks.clear());
            if heap::with(0, |h| h.n_dealloc) != nd {
                viol("C19/reset", "BumpPool::reset_to_start released chunks".into());
            }
            if pool.bumps().iter().any(|b| b.stats().allocated() != 0) {
                viol("C19/reset", "after BumpPool::reset_to_start an arena still has bytes allocated".into());
            }
        }
        _ => {}
    }
    drop(pool);
}

struct PoolWorld;

impl World for PoolWorld {
    const NAME: &'static str = "pool";
    fn op_names() -> &'static [&'static str] {
        OP_NAMES
    }
    fn props() -> &'static [&'static str] {
        &["C19"]
    }
    fn generate(prop: &str, run_seed: u64, _index: u64, tier: Tier) -> Trace {
        let root = Rng::new(run_seed);
        let mut rc = root.fork(1);
        let mut r = root.fork(2);
        let mut t = Trace { world: "pool".into(), prop: prop.into(), seed: run_seed, ..Default::default() };
        let threads = if rc.chance(1, 6) { 1 } else { 2 + rc.below(if tier == Tier::Quick { 3 } else { 4 }) };
        t.set_param("threads", threads);
        t.set_param("setting", rc.below(2));
        t.set_param("sched", rc.below(3));
        t.set_param("sched_seed", rc.next() >> 20);
        t.set_param("pct_depth", 2 + rc.below(3));
        t.set_param("policy", rc.below(5));
        t.set_param("heap_seed", rc.next() >> 16);
        t.set_param("fail_mod", if rc.chance(1, 4) { 3 + rc.below(6) } else { 0 });
        for th in 0..threads {
            let rounds = if threads == 1 { 3 + r.below(6) } else { 1 + r.below(4) };
            for _ in 0..rounds {
                t.ops.push(Op::new(K_ROUND, &[th, if threads == 1 && r.below(4) == 0 { 15 } else { r.below(6) }, r.below(4), *r.pick(&[1u64, 5, 24, 100, 400]), (r.below(20) == 0) as u64 | if r.below(4) == 0 { 6 } else { 0 }, r.below(2)]));
            }
        }
        t.ops.push(Op::new(K_FINAL, &[r.below(3)]));
        t
    }

    fn execute(trace: &Trace, stats: &mut Stats) -> Vec<Violation> {
        heap::with(0, |h| {
            h.reset(trace.param_or("heap_seed", 1), Policy::from_u64(trace.param_or("policy", 0)));
            let fm = trace.param_or("fail_mod", 0);
            h.fail_mod = if fm > 0 { Some(fm) } else { None };
        });
        *SHARED.lock().unwrap_or_else(|e| e.into_inner()) = Some(Shared::default());
        CONSERVATIVE_LIVE.store(0, SeqCst);
        PEAK_LIVE.store(0, SeqCst);
        let threads = trace.param_or("threads", 2).clamp(1, 8) as usize;
        let mut plan: Vec<Vec<Round>> = vec![Vec::new(); threads];
        let mut fin = 2;
        for op in &trace.ops {
            if op.kind == K_ROUND {
                let th = op.a[0] as usize % threads;
                plan[th].push(Round { thread: th, variant: if threads > 1 && op.a[1] % 16 == 15 { 0 } else { op.a[1] }, nblocks: op.a[2] as usize % 5, size: op.a[3] as usize % 2000, forget: op.a[4] & 1 == 1, yield_inside: op.a[5] & 1 == 1, scoped: op.a[4] & 6 == 6 });
            } else {
                fin = op.a[0];
            }
        }
        let try_only = trace.param_or("fail_mod", 0) > 0;
        let setting = trace.param_or("setting", 0);
        let sched = trace.param_or("sched", 0);
        let sseed = trace.param_or("sched_seed", 1);
        stats.sig_mix(threads as u64 * 4 + sched);
        stats.sig_mix(sseed);
        stats.steps += trace.ops.len() as u64;
        stats.bump(&format!("threads.{threads}"));
        stats.bump(if sched == 2 { "scheduler.pct" } else { "scheduler.random" });
        let plan = std::sync::Arc::new(plan);
        let mut config = shuttle::Config::new();
        config.failure_persistence = shuttle::FailurePersistence::None;
        let body = {
            let plan = plan.clone();
            move || {
                if setting == 0 {
                    scenario::<S>(&plan, fin, try_only)
                } else {
                    scenario::<SD>(&plan, fin, try_only)
                }
            }
        };
        let r = catch_unwind(AssertUnwindSafe(|| {
            if sched == 2 {
                shuttle::Runner::new(PctScheduler::new_from_seed(sseed, trace.param_or("pct_depth", 3) as usize, 1), config).run(body);
            } else {
                shuttle::Runner::new(RandomScheduler::new_from_seed(sseed, 1), config).run(body);
            }
        }));
        let mut out = Vec::new();
        if r.is_err() {
            let m = take_last_panic().unwrap_or_default();
            out.push(Violation { class: "C19/panicked".into(), op_index: 0, msg: format!("the scenario panicked under this schedule: {m}") });
        }
        heap::with(0, |h| h.final_check(shared(|s| s.forgotten) == 0));
        let herrs: Vec<(&'static str, String)> = heap::with(0, |h| std::mem::take(&mut h.errors));
        for (c, m) in herrs {
            out.push(Violation { class: c.replace("C05/", "C19/heap-"), op_index: 0, msg: m });
        }
        let sh = SHARED.lock().unwrap_or_else(|e| e.into_inner()).take().unwrap();
        for (c, m) in sh.viols {
            out.push(Violation { class: c, op_index: 0, msg: m });
        }
        // reach: how contended was this schedule?
        let mut h = 0u64;
        for e in &sh.events {
            h = sim::rng::mix(h, (e.0 as u64) * 2 + e.1 as u64);
        }
        stats.sig_mix(h);
        stats.state(h);
        let peak = PEAK_LIVE.load(SeqCst);
        stats.bump(&format!("peak_live.{peak}"));
        if sh.arenas_seen.len() < sh.got_calls as usize {
            stats.probe("pool.arena_reused");
        }
        if sh.arenas_seen.len() > 1 {
            stats.probe("pool.several_arenas");
        }
        if sh.forgotten > 0 {
            stats.probe("pool.guard_forgotten");
        }
        if sh.poisoning_gets > 0 {
            stats.probe("pool.get_panicked_inside_pool");
        }
        if sh.scoped_rounds > 0 {
            stats.probe("pool.round_inside_scope");
        }
        let fired = heap::with(0, |h| h.fired);
        for (i, n) in fired.iter().enumerate() {
            if *n > 0 {
                stats.add(&format!("fault.{}", heap::FAULT_NAMES[i]), *n);
            }
        }
        stats.run_nontrivial = true;
        out
    }
}

fn main() {
    main_for::<PoolWorld>();
}
