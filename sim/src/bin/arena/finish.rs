//! Root-level bookkeeping: resets, raw round trips, end of run, reset loop (C03 / C05 / C12).

use sim::heap;

use crate::api::*;
use crate::model::*;
use crate::oracle::heap_off;

impl<'t> Interp<'t> {
    fn kill_all_blocks(&mut self) {
        for f in &mut self.frames {
            f.blocks.clear();
            f.cps.clear();
        }
    }

    /// After `Bump::reset` (`keeps_one`) or `Bump::reset_to_start`.
    pub fn after_reset(&mut self, arena: &dyn Arena, keeps_one: bool) {
        self.stats.steps += 1;
        if self.abort_run {
            self.kill_all_blocks();
            return;
        }
        let before = self.last.clone();
        self.kill_all_blocks();
        let snap = arena.snap();
        let t = &snap.typed;
        if keeps_one {
            self.stats.probe("root.reset");
            if self.on.c05 {
                if before.typed.count >= 1 {
                    let out = heap::with(0, |h| h.outstanding());
                    if out != 1 {
                        self.viol("C05/reset-kept-wrong-number", format!("after reset() the base allocator has {out} outstanding blocks (arena had {} chunks)", before.typed.count));
                    }
                    let biggest = before.typed.chunks.iter().map(|c| c.size).max().unwrap_or(0);
                    if t.chunks.len() == 1 && t.chunks[0].size != biggest {
                        self.viol("C05/reset-kept-not-largest", format!("reset() kept a chunk of {} bytes, the largest had {biggest}", t.chunks[0].size));
                    }
                } else if heap::with(0, |h| h.outstanding()) != 0 {
                    self.viol("C05/reset-kept-wrong-number", "reset() of an arena without chunks left blocks outstanding".into());
                }
            }
            if before.typed.count > 1 {
                self.stats.probe("root.reset_released_chunks");
            }
        } else {
            self.stats.probe("root.reset_to_start");
            if self.on.c05 {
                let nd = heap::with(0, |h| h.n_dealloc);
                let m = self.frames[0].entry.n_dealloc.max(self.last_dealloc_mark);
                if nd != m {
                    self.viol("C05/reset-to-start-released", format!("reset_to_start released {} chunks", nd - m));
                }
            }
            if self.on.c03 && t.cur.is_some_and(|c| c != 0) {
                self.viol("C03/position-not-restored", "after reset_to_start the current chunk is not the first chunk".into());
            }
        }
        if (self.on.c03 || self.on.c05) && t.allocated != 0 {
            self.viol(if self.on.c03 { "C03/allocated-not-restored" } else { "C05/reset-not-empty" }, format!("allocated() is {} after a reset", t.allocated));
        }
        self.last_dealloc_mark = heap::with(0, |h| h.n_dealloc);
        self.last = snap;
        let m = self.mark(&self.last.clone());
        self.frames[0].entry = m;
        self.check_stats(arena, true);
    }

    pub fn after_raw_roundtrip(&mut self, arena: &dyn Arena) {
        self.stats.steps += 1;
        self.stats.probe("root.raw_roundtrip");
        let before = self.last.clone();
        let snap = arena.snap();
        if self.on.c05 && snap.typed != before.typed {
            self.viol("C05/raw-roundtrip-changed-state", "into_raw/from_raw changed the arena".into());
        }
        self.last = snap;
        self.check_stats(arena, true);
        self.check_patterns(None);
    }

    /// C12: `with_capacity(layout)` must have room for `layout` in its first chunk.
    pub fn check_initial_capacity(&mut self, arena: &dyn Arena, size: usize, align: usize) {
        if !self.on.c12 {
            return;
        }
        let snap = arena.snap();
        let info = arena.info();
        if let Some(c) = snap.cur() {
            let fits = if info.up {
                let start = (c.pos + align - 1) & !(align - 1);
                start + size <= c.content_end
            } else {
                c.pos >= size && ((c.pos - size) & !(align - 1)) >= c.content_start
            };
            if !fits {
                self.viol("C12/with-capacity-too-small", format!("with_capacity(size {size}, align {align}) created a chunk with {} bytes of capacity at {:#x} that cannot hold it", c.capacity, heap_off(c.pos)));
            }
        }
    }

    /// End of the run, after the arena was dropped: checks over the recorded history.
    pub fn finish(&mut self) {
        heap::with(0, |h| h.final_check(!self.skip_final_ledger));
        self.drain_heap_errors();
        let (created, dropped, calls, refused, fired) = heap::with(0, |h| (h.handles_created, h.handles_dropped, h.n_alloc, h.n_refused, h.fired));
        if created != dropped {
            self.stats.bump("probe.allocator_handle_not_dropped");
        }
        if self.on.c05 && self.trace.param_or("init", 0) % 4 == 0 && self.never_needed_memory && calls != 0 {
            // only reachable for an unallocated arena
        }
        self.stats.add("heap.allocate_calls", calls);
        self.stats.add("heap.refused", refused);
        for (i, n) in fired.iter().enumerate() {
            if *n > 0 {
                self.stats.add(&format!("fault.{}", heap::FAULT_NAMES[i]), *n);
                self.stats.run_nontrivial = true;
            }
        }
    }

    /// C03: a fixed workload in a `reset()` loop stops requesting chunks after finitely many rounds.
    pub fn check_reset_loop(&mut self, calls: &[u64]) {
        self.stats.probe("c03.reset_loops");
        if !self.on.c03 || heap::with(0, |h| h.n_refused) > 0 || self.failed_calls > 0 {
            // "once faults stop": a workload containing a request the base allocator refuses is not covered
            return;
        }
        // first quiet round
        let Some(q) = calls.iter().position(|&c| c == 0) else {
            self.viol("C03/reset-loop-never-quiet", format!("base-allocator calls per round: {:?}", calls));
            return;
        };
        if calls[q..].iter().any(|&c| c != 0) {
            self.viol("C03/reset-loop-not-quiet", format!("a round needed new chunks after a quiet round; calls per round: {:?}", calls));
        }
        self.stats.add("c03.reset_loop_rounds_until_quiet", q as u64);
    }
}
