//! Non-generic interpreter state and oracles of the arena world.

use std::alloc::Layout;

use bump_scope::Checkpoint;
use sim::heap;
use sim::rng::mix;
use sim::runner::Stats;
use sim::trace::{Op, Trace, Violation};

use crate::api::*;

pub const OP_NAMES: &[&str] = &[
    "alloc", "grow", "shrink", "dealloc", "prep", "reserve", "checkpoint", "reset_to", "scoped", "guard", "guard_reset", "aligned",
    "scoped_aligned", "claim", "end", "unwind", "typed", "triple", "growtip", "reset", "reset_to_start", "raw_roundtrip", "o_alloc",
    "o_grow", "o_dealloc", "o_shrink", "o_reserve", "o_misc", "rescope", "with_settings",
];

pub const K_ALLOC: u16 = 0;
pub const K_GROW: u16 = 1;
pub const K_SHRINK: u16 = 2;
pub const K_DEALLOC: u16 = 3;
pub const K_PREP: u16 = 4;
pub const K_RESERVE: u16 = 5;
pub const K_CHECKPOINT: u16 = 6;
pub const K_RESET_TO: u16 = 7;
pub const K_SCOPED: u16 = 8;
pub const K_GUARD: u16 = 9;
pub const K_GUARD_RESET: u16 = 10;
pub const K_ALIGNED: u16 = 11;
pub const K_SCOPED_ALIGNED: u16 = 12;
pub const K_CLAIM: u16 = 13;
pub const K_END: u16 = 14;
pub const K_UNWIND: u16 = 15;
pub const K_TYPED: u16 = 16;
pub const K_TRIPLE: u16 = 17;
pub const K_GROWTIP: u16 = 18;
pub const K_RESET: u16 = 19;
pub const K_RESET_TO_START: u16 = 20;
pub const K_RAW_ROUNDTRIP: u16 = 21;
pub const K_O_ALLOC: u16 = 22;
pub const K_O_GROW: u16 = 23;
pub const K_O_DEALLOC: u16 = 24;
pub const K_O_SHRINK: u16 = 25;
pub const K_O_RESERVE: u16 = 26;
pub const K_O_MISC: u16 = 27;
pub const K_RESCOPE: u16 = 28;
pub const K_WITH_SETTINGS: u16 = 29;

#[derive(Clone, Copy, PartialEq, Eq, Debug)]
pub enum FrameKind {
    Root,
    Scoped,
    Guard,
    Aligned,
    ScopedAligned,
    Claim,
    /// `borrow_mut_with_settings` to a higher minimum alignment (blocks survive, like `Aligned`)
    Settings,
}

impl FrameKind {
    /// Do blocks allocated in this frame die when it ends?
    pub fn is_scope(self) -> bool {
        matches!(self, FrameKind::Scoped | FrameKind::Guard | FrameKind::ScopedAligned)
    }
}

#[derive(Clone, Debug)]
pub struct Block {
    pub id: u32,
    pub ptr: *mut u8,
    pub len: usize,
    pub req: usize,
    pub align: usize,
    pub seq: u64,
}

#[derive(Clone, Copy, Debug)]
pub struct Mark {
    pub allocated: usize,
    pub pos: Option<(usize, usize)>, // (chunk_start of current chunk, pos)
    pub count: usize,
    pub n_dealloc: u64,
}

#[derive(Clone, Debug)]
pub struct Cp {
    pub cp: Checkpoint,
    pub seq: u64,
    pub mark: Mark,
}

#[derive(Clone, Debug)]
pub struct Frame {
    pub kind: FrameKind,
    pub blocks: Vec<Block>,
    pub cps: Vec<Cp>,
    pub entry: Mark,
    pub min_align: usize,
    pub outer_align: usize,
    pub isolated: bool,
    pub pc_begin: usize,
    /// the frame is a replay of an earlier scope (C03): base-allocator traffic must be zero
    pub replay_alloc_mark: Option<u64>,
    pub refused_at_entry: u64,
    /// `by_value()` frame: its allocations only live as long as the reborrow, i.e. they are dead when the frame ends
    pub by_value: bool,
}

/// What the generic frame loop has to do next.
pub enum Step {
    Exec(Op, usize),
    Enter(FrameKind, usize),
    Exit,
    GuardReset,
    Unwind(u32),
    Root(Op, usize),
    Done,
}

#[derive(Clone, Copy, PartialEq, Eq, Debug)]
pub enum Flow {
    Exit,
    Done,
    GuardReset,
    Root,
}

pub struct Oracles {
    pub c01: bool,
    pub c02: bool,
    pub c03: bool,
    pub c05: bool,
    pub c07: bool,
    pub c10: bool,
    pub c12: bool,
    pub c13: bool,
    pub c14: bool,
    pub c18: bool,
}

impl Oracles {
    pub fn for_prop(p: &str) -> Oracles {
        let all = p == "ALL";
        Oracles {
            c01: all || p == "C01" || p == "C07",
            c02: all || p == "C02" || p == "C07" || p == "C13" || p == "C14" || p == "C18" || p == "C03",
            c03: all || p == "C03",
            c05: all || p == "C05" || p == "C07",
            c07: all || p == "C07",
            c10: all || p == "C10" || p == "C07",
            c12: all || p == "C12",
            c13: all || p == "C13",
            c14: all || p == "C14",
            c18: all || p == "C18",
        }
    }
}

pub struct Interp<'t> {
    pub trace: &'t Trace,
    pub pc: usize,
    pub frames: Vec<Frame>,
    pub viols: Vec<Violation>,
    pub stats: &'t mut Stats,
    pub on: Oracles,
    pub next_id: u32,
    pub seq: u64,
    pub last: Snap,
    pub akind: usize,
    /// run-level faults are configured: panicking entry points must not be used
    pub faulty: bool,
    pub cur_op: usize,
    pub pending_root: Option<(Op, usize)>,
    /// completed isolated scoped frames: (pc_begin, pc_end) of the most recent one, valid only right after it ended
    pub last_scope_range: Option<(usize, usize)>,
    pub replay_until: Vec<(usize, usize)>,
    pub claim_depth: usize,
    pub header: (usize, usize),
    pub live_bytes: usize,
    pub orig_frame_blocks_mark: usize,
    pub last_dealloc_mark: u64,
    pub never_needed_memory: bool,
    pub verbose: bool,
    /// calls into the arena that returned an error or unwound so far
    pub failed_calls: u64,
    /// known finding F8: inside a `by_value()` copy the minimum alignment was lowered and the copy moved on to
    /// another chunk, leaving an unaligned position behind in the chunk the original handle resumes on
    pub kf_byvalue_lowered_switch: bool,
    /// set once a known finding was observed: the rest of the run is tainted and is not executed
    pub abort_run: bool,
    /// chunks were leaked on purpose at the end of the run (leaked claim guard): skip the 'everything released' check
    pub skip_final_ledger: bool,
}

pub use sim::pattern::{fill, first_mismatch, pat};

impl<'t> Interp<'t> {
    pub fn new(trace: &'t Trace, stats: &'t mut Stats) -> Self {
        let akind = trace.param_or("akind", 0) as usize;
        let faulty = trace.param_or("fail_above", 0) != 0 || trace.param_or("budget", 0) != 0 || trace.ops.iter().any(|o| o.fail_nth != 0 || o.burst != 0);
        Interp {
            trace,
            pc: 0,
            frames: Vec::new(),
            viols: Vec::new(),
            stats,
            on: Oracles::for_prop(&trace.prop),
            next_id: 1,
            seq: 0,
            last: Snap::default(),
            akind,
            faulty,
            cur_op: 0,
            pending_root: None,
            last_scope_range: None,
            replay_until: Vec::new(),
            claim_depth: 0,
            header: heap::HEADER_LAYOUT[akind],
            live_bytes: 0,
            orig_frame_blocks_mark: 0,
            last_dealloc_mark: 0,
            never_needed_memory: false,
            failed_calls: 0,
            kf_byvalue_lowered_switch: false,
            abort_run: false,
            skip_final_ledger: false,
            verbose: std::env::var_os("SIM_VERBOSE").is_some(),
        }
    }

    pub fn viol(&mut self, class: &str, msg: String) {
        if self.viols.len() < 16 {
            sim::runner::early_violation(class, self.cur_op, &msg);
            self.viols.push(Violation { class: class.to_string(), op_index: self.cur_op, msg });
        }
    }

    pub fn depth(&self) -> usize {
        self.frames.len() - 1
    }

    pub fn top(&mut self) -> &mut Frame {
        self.frames.last_mut().unwrap()
    }

    pub fn mark(&self, snap: &Snap) -> Mark {
        Mark {
            allocated: snap.typed.allocated,
            pos: snap.cur().map(|c| (c.chunk_start, c.pos)),
            count: snap.typed.count,
            n_dealloc: heap::with(0, |h| h.n_dealloc),
        }
    }

    // ---------------------------------------------------------------- control flow

    /// Decides what the frame loop does next. Structural ops that make no sense in the current frame are skipped.
    pub fn next(&mut self) -> Step {
        loop {
            if let Some(&(limit, resume)) = self.replay_until.last() {
                if self.pc >= limit {
                    self.replay_until.pop();
                    self.pc = resume;
                    return Step::Exit;
                }
            }
            if self.pc >= self.trace.ops.len() || self.abort_run {
                return Step::Done;
            }
            let idx = self.pc;
            let op = self.trace.ops[idx].clone();
            self.pc += 1;
            self.cur_op = idx;
            let kind = self.frames.last().unwrap().kind;
            let depth = self.depth();
            if self.frames.len() > 7 && matches!(op.kind, K_SCOPED | K_GUARD | K_ALIGNED | K_SCOPED_ALIGNED | K_CLAIM | K_WITH_SETTINGS | K_RESCOPE) {
                continue;
            }
            match op.kind {
                K_SCOPED => return Step::Enter(FrameKind::Scoped, op.a[0] as usize),
                K_GUARD => return Step::Enter(FrameKind::Guard, 0),
                K_ALIGNED => return Step::Enter(FrameKind::Aligned, 1 << (op.a[0] % 5)),
                K_SCOPED_ALIGNED => return Step::Enter(FrameKind::ScopedAligned, 1 << (op.a[0] % 5)),
                K_WITH_SETTINGS => {
                    // `borrow_mut_with_settings` / `by_value().with_settings()` to minimum alignment 16 (raising through a
                    // borrow is the only direction the crate accepts; 16 is valid from every starting alignment)
                    return Step::Enter(FrameKind::Settings, 16 | ((op.a[0] as usize & 1) << 8));
                }
                K_CLAIM => {
                    if self.claim_depth >= 2 {
                        continue;
                    }
                    return Step::Enter(FrameKind::Claim, 0);
                }
                K_RESCOPE => {
                    if let Some((b, e)) = self.last_scope_range.take() {
                        if !self.faulty && idx == e + 1 {
                            // replay ops b..e in a fresh scope, then continue after this op
                            self.replay_until.push((e, self.pc));
                            self.pc = b;
                            return Step::Enter(FrameKind::Scoped, 3);
                        }
                    }
                    continue;
                }
                K_END => {
                    if depth == 0 {
                        continue;
                    }
                    return Step::Exit;
                }
                K_GUARD_RESET => {
                    if kind == FrameKind::Guard {
                        return Step::GuardReset;
                    }
                    continue;
                }
                K_UNWIND => {
                    let lv = (op.a[0] as usize).min(depth) as u32;
                    if lv == 0 {
                        continue;
                    }
                    return Step::Unwind(lv);
                }
                K_RESET | K_RESET_TO_START | K_RAW_ROUNDTRIP => {
                    if depth == 0 {
                        return Step::Root(op, idx);
                    }
                    continue;
                }
                _ => return Step::Exec(op, idx),
            }
        }
    }
}
