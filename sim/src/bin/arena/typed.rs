//! Typed allocation entry points of the arena world (`alloc*`, `alloc_slice_*`, `alloc_iter*`, `alloc_fmt*`,
//! `alloc_try_with*`, `allocate_sized/slice`, prepared slices), executed for a few plain-data element types.
//! The result is turned into a raw block (`into_raw`) that the interpreter tracks like any other block.

use std::alloc::Layout;
use std::mem::MaybeUninit;

use bump_scope::alloc::Allocator;
use bump_scope::settings::BumpAllocatorSettings;
use bump_scope::traits::{BumpAllocatorCoreScope, BumpAllocatorTyped, BumpAllocatorTypedScope, MutBumpAllocatorTypedScope};
use bump_scope::{BaseAllocator, Bump, BumpBox, BumpScope, WithoutDealloc};

use sim::runner::inject_panic;

use crate::api::*;

pub trait Pod: Copy + Default + 'static {
    fn make(seed: u8, i: usize) -> Self;
    fn bytes(&self, out: &mut Vec<u8>);
}

fn b(seed: u8, i: usize, k: usize) -> u8 {
    (seed as usize).wrapping_mul(37).wrapping_add(i * 11 + k * 3).wrapping_add(1) as u8
}

macro_rules! pod_int {
    ($($t:ty),*) => {$(
        impl Pod for $t {
            fn make(seed: u8, i: usize) -> Self {
                let mut x = [0u8; std::mem::size_of::<$t>()];
                for k in 0..x.len() { x[k] = b(seed, i, k); }
                <$t>::from_ne_bytes(x)
            }
            fn bytes(&self, out: &mut Vec<u8>) { out.extend_from_slice(&self.to_ne_bytes()); }
        }
    )*};
}
pod_int!(u8, u16, u32, u64, u128);

impl Pod for [u8; 3] {
    fn make(seed: u8, i: usize) -> Self {
        [b(seed, i, 0), b(seed, i, 1), b(seed, i, 2)]
    }
    fn bytes(&self, out: &mut Vec<u8>) {
        out.extend_from_slice(self);
    }
}

impl Pod for [u32; 3] {
    fn make(seed: u8, i: usize) -> Self {
        [u32::make(seed, i), u32::make(seed, i + 100), u32::make(seed, i + 200)]
    }
    fn bytes(&self, out: &mut Vec<u8>) {
        for x in self {
            out.extend_from_slice(&x.to_ne_bytes());
        }
    }
}

impl Pod for () {
    fn make(_: u8, _: usize) -> Self {}
    fn bytes(&self, _: &mut Vec<u8>) {}
}

fn expect_of<T: Pod>(seed: u8, n: usize) -> Vec<u8> {
    let mut v = Vec::new();
    for i in 0..n {
        T::make(seed, i).bytes(&mut v);
    }
    v
}

fn block_of<T>(ptr: *mut T, n: usize, expect: Vec<u8>) -> TypedRes {
    TypedRes::Block { ptr: ptr.cast(), len: n * std::mem::size_of::<T>(), align: std::mem::align_of::<T>(), expect, extra: Vec::new() }
}

fn one<T: Pod>(r: Result<BumpBox<'_, T>, bump_scope::alloc::AllocError>, seed: u8) -> TypedRes {
    match r {
        Ok(bx) => block_of(bx.into_raw().as_ptr(), 1, expect_of::<T>(seed, 1)),
        Err(_) => TypedRes::Failed,
    }
}

fn many<T: Pod>(r: Result<BumpBox<'_, [T]>, bump_scope::alloc::AllocError>, seed: u8, n: usize) -> TypedRes {
    match r {
        Ok(bx) => {
            let len = bx.len();
            let raw = bx.into_raw();
            if len != n {
                return TypedRes::WrongLen { got: len, want: n };
            }
            block_of(raw.as_ptr() as *mut T, n, expect_of::<T>(seed, n))
        }
        Err(_) => TypedRes::Failed,
    }
}

/// Callback fault plan of a typed operation: the j-th callback unwinds.
struct Ticks {
    n: u32,
    at: u32,
}

impl Ticks {
    fn tick(&mut self) {
        self.n += 1;
        if self.at != 0 && self.n == self.at {
            inject_panic(self.n);
        }
    }
}

pub const N_SHARED_METHODS: u8 = 17;

/// Methods available through a shared reference, via the `BumpAllocatorTypedScope` trait.
pub fn typed_on<'a, B: BumpAllocatorTypedScope<'a> + ?Sized, T: Pod>(bump: &B, req: &TypedReq) -> TypedRes {
    let seed = req.seed;
    let n = req.len;
    let t = req.try_;
    let mut ticks = Ticks { n: 0, at: req.panic_at };
    let src: Vec<T> = (0..n).map(|i| T::make(seed, i)).collect();
    match req.method % N_SHARED_METHODS {
        0 => one(if t { bump.try_alloc(T::make(seed, 0)) } else { Ok(bump.alloc(T::make(seed, 0))) }, seed),
        1 => {
            let f = || {
                ticks.tick();
                T::make(seed, 0)
            };
            one(if t { bump.try_alloc_with(f) } else { Ok(bump.alloc_with(f)) }, seed)
        }
        2 => {
            let r = if t { bump.try_alloc_default::<T>() } else { Ok(bump.alloc_default::<T>()) };
            match r {
                Ok(bx) => {
                    let mut e = Vec::new();
                    T::default().bytes(&mut e);
                    block_of(bx.into_raw().as_ptr(), 1, e)
                }
                Err(_) => TypedRes::Failed,
            }
        }
        3 => {
            let r = if t { bump.try_alloc_uninit::<T>() } else { Ok(bump.alloc_uninit::<T>()) };
            one(r.map(|u| u.init(T::make(seed, 0))), seed)
        }
        4 => many(if t { bump.try_alloc_slice_copy(&src) } else { Ok(bump.alloc_slice_copy(&src)) }, seed, n),
        5 => many(if t { bump.try_alloc_slice_clone(&src) } else { Ok(bump.alloc_slice_clone(&src)) }, seed, n),
        6 => {
            let v = T::make(seed, 0);
            let r = if t { bump.try_alloc_slice_fill(n, v) } else { Ok(bump.alloc_slice_fill(n, v)) };
            match r {
                Ok(bx) => {
                    let mut e = Vec::new();
                    for _ in 0..n {
                        v.bytes(&mut e);
                    }
                    let len = bx.len();
                    let raw = bx.into_raw();
                    if len != n {
                        return TypedRes::WrongLen { got: len, want: n };
                    }
                    block_of(raw.as_ptr() as *mut T, n, e)
                }
                Err(_) => TypedRes::Failed,
            }
        }
        7 => {
            let mut i = 0;
            let f = || {
                ticks.tick();
                i += 1;
                T::make(seed, i - 1)
            };
            many(if t { bump.try_alloc_slice_fill_with(n, f) } else { Ok(bump.alloc_slice_fill_with(n, f)) }, seed, n)
        }
        8 => many(if t { bump.try_alloc_slice_move(src) } else { Ok(bump.alloc_slice_move(src)) }, seed, n),
        9 => {
            let r = if t { bump.try_alloc_uninit_slice::<T>(n) } else { Ok(bump.alloc_uninit_slice::<T>(n)) };
            many(r.map(|u| u.init_copy(&src)), seed, n)
        }
        10 => {
            let r = if t { bump.try_alloc_uninit_slice_for::<T>(&src) } else { Ok(bump.alloc_uninit_slice_for::<T>(&src)) };
            let mut i = 0;
            many(
                r.map(|u: BumpBox<'_, [MaybeUninit<T>]>| {
                    u.init_fill_with(|| {
                        i += 1;
                        T::make(seed, i - 1)
                    })
                }),
                seed,
                n,
            )
        }
        11 => {
            let it = src.clone().into_iter().map(|x| {
                ticks.tick();
                x
            });
            many(if t { bump.try_alloc_iter(it) } else { Ok(bump.alloc_iter(it)) }, seed, n)
        }
        12 => many(if t { bump.try_alloc_iter_exact(src.clone()) } else { Ok(bump.alloc_iter_exact(src.clone())) }, seed, n),
        13 => {
            // BumpAllocatorTyped: allocate_sized / allocate_slice / allocate_slice_for / allocate_layout
            let r: Result<*mut T, ()> = match seed % 4 {
                0 => {
                    if n != 1 {
                        (if t { bump.try_allocate_slice::<T>(n).map_err(drop) } else { Ok(bump.allocate_slice::<T>(n)) }).map(|p| p.as_ptr())
                    } else {
                        (if t { bump.try_allocate_sized::<T>().map_err(drop) } else { Ok(bump.allocate_sized::<T>()) }).map(|p| p.as_ptr())
                    }
                }
                1 => (if t { bump.try_allocate_slice::<T>(n).map_err(drop) } else { Ok(bump.allocate_slice::<T>(n)) }).map(|p| p.as_ptr()),
                2 => (if t { bump.try_allocate_slice_for::<T>(&src).map_err(drop) } else { Ok(bump.allocate_slice_for::<T>(&src)) }).map(|p| p.as_ptr()),
                _ => {
                    let l = Layout::array::<T>(n).unwrap();
                    (if t { bump.try_allocate_layout(l).map_err(drop) } else { Ok(bump.allocate_layout(l)) }).map(|p| p.as_ptr().cast())
                }
            };
            match r {
                Ok(p) => {
                    if std::mem::size_of::<T>() != 0 {
                        for (i, x) in src.iter().enumerate() {
                            unsafe { p.add(i).write(*x) };
                        }
                    }
                    block_of(p, n, expect_of::<T>(seed, n))
                }
                Err(()) => TypedRes::Failed,
            }
        }
        14 => {
            // prepare_slice_allocation + allocate_prepared_slice (forward / reverse), committing at most `cap`
            let rev = seed % 2 == 1;
            if std::mem::size_of::<T>() == 0 {
                return TypedRes::Unsupported;
            }
            if rev {
                let r = if t { bump.try_prepare_slice_allocation_rev::<T>(n).map_err(drop) } else { Ok(bump.prepare_slice_allocation_rev::<T>(n)) };
                match r {
                    Ok((end, cap)) => {
                        if cap < n {
                            return TypedRes::WrongLen { got: cap, want: n };
                        }
                        unsafe {
                            let start = end.as_ptr().sub(n);
                            for (i, x) in src.iter().enumerate() {
                                start.add(i).write(*x);
                            }
                            let s = bump.allocate_prepared_slice_rev(end, n, cap);
                            block_of(s.as_ptr() as *mut T, n, expect_of::<T>(seed, n))
                        }
                    }
                    Err(()) => TypedRes::Failed,
                }
            } else {
                let r = if t { bump.try_prepare_slice_allocation::<T>(n).map_err(drop) } else { Ok(bump.prepare_slice_allocation::<T>(n)) };
                match r {
                    Ok(sl) => {
                        let cap = sl.len();
                        if cap < n {
                            return TypedRes::WrongLen { got: cap, want: n };
                        }
                        unsafe {
                            let start = sl.as_ptr() as *mut T;
                            for (i, x) in src.iter().enumerate() {
                                start.add(i).write(*x);
                            }
                            let s = bump.allocate_prepared_slice(std::ptr::NonNull::new_unchecked(start), n, cap);
                            block_of(s.as_ptr() as *mut T, n, expect_of::<T>(seed, n))
                        }
                    }
                    Err(()) => TypedRes::Failed,
                }
            }
        }
        15 => {
            // allocate a box and give it straight back with `dealloc`
            match bump.try_alloc_slice_copy(&src) {
                Ok(bx) => {
                    let bytes = std::mem::size_of_val::<[T]>(&bx);
                    bump.dealloc(bx);
                    TypedRes::Nothing { bytes, inert_dealloc: false }
                }
                Err(_) => TypedRes::Failed,
            }
        }
        _ => {
            // alloc_str / alloc_fmt with ASCII text derived from the seed
            let s: String = (0..n).map(|i| (b'a' + (b(seed, i, 0) % 26)) as char).collect();
            if seed % 5 >= 3 {
                // C strings: the block is the text plus its terminating NUL
                let r = match (seed % 5, t) {
                    (3, true) => bump.try_alloc_cstr_from_str(&s).map_err(drop),
                    (3, false) => Ok(bump.alloc_cstr_from_str(&s)),
                    (_, true) => bump.try_alloc_cstr_fmt(format_args!("{}{}", &s[..n / 2], &s[n / 2..])).map_err(drop),
                    (_, false) => Ok(bump.alloc_cstr_fmt(format_args!("{}{}", &s[..n / 2], &s[n / 2..]))),
                };
                return match r {
                    Ok(c) => {
                        let bytes = c.to_bytes_with_nul();
                        if bytes.len() != n + 1 {
                            return TypedRes::WrongLen { got: bytes.len(), want: n + 1 };
                        }
                        let mut expect = s.into_bytes();
                        expect.push(0);
                        TypedRes::Block { ptr: bytes.as_ptr() as *mut u8, len: n + 1, align: 1, expect, extra: Vec::new() }
                    }
                    Err(()) => TypedRes::Failed,
                };
            }
            let r = if seed % 2 == 0 {
                if t { bump.try_alloc_str(&s) } else { Ok(bump.alloc_str(&s)) }
            } else if t {
                bump.try_alloc_fmt(format_args!("{}{}", &s[..n / 2], &s[n / 2..]))
            } else {
                Ok(bump.alloc_fmt(format_args!("{}{}", &s[..n / 2], &s[n / 2..])))
            };
            match r {
                Ok(bx) => {
                    let len = bx.len();
                    let raw = bx.into_raw();
                    if len != n {
                        return TypedRes::WrongLen { got: len, want: n };
                    }
                    TypedRes::Block { ptr: raw.as_ptr() as *mut u8, len: n, align: 1, expect: s.into_bytes(), extra: Vec::new() }
                }
                Err(_) => TypedRes::Failed,
            }
        }
    }
}

/// Methods that need exclusive access (`MutBumpAllocatorTypedScope`).
pub fn typed_mut_on<'a, B: MutBumpAllocatorTypedScope<'a>, T: Pod>(bump: &mut B, req: &TypedReq) -> TypedRes {
    let seed = req.seed;
    let n = req.len;
    let t = req.try_;
    let mut ticks = Ticks { n: 0, at: req.panic_at };
    let src: Vec<T> = (0..n).map(|i| T::make(seed, i)).collect();
    match req.method % 3 {
        0 => {
            let it = src.clone().into_iter().map(|x| {
                ticks.tick();
                x
            });
            many(if t { bump.try_alloc_iter_mut(it) } else { Ok(bump.alloc_iter_mut(it)) }, seed, n)
        }
        1 => {
            let it = src.clone().into_iter().rev().map(|x| {
                ticks.tick();
                x
            });
            many(if t { bump.try_alloc_iter_mut_rev(it) } else { Ok(bump.alloc_iter_mut_rev(it)) }, seed, n)
        }
        _ => {
            let s: String = (0..n).map(|i| (b'a' + (b(seed, i, 0) % 26)) as char).collect();
            let r = if t { bump.try_alloc_fmt_mut(format_args!("{}{}", &s[..n / 2], &s[n / 2..])) } else { Ok(bump.alloc_fmt_mut(format_args!("{}{}", &s[..n / 2], &s[n / 2..]))) };
            match r {
                Ok(bx) => {
                    let len = bx.len();
                    let raw = bx.into_raw();
                    if len != n {
                        return TypedRes::WrongLen { got: len, want: n };
                    }
                    TypedRes::Block { ptr: raw.as_ptr() as *mut u8, len: n, align: 1, expect: s.into_bytes(), extra: Vec::new() }
                }
                Err(_) => TypedRes::Failed,
            }
        }
    }
}

/// `alloc_try_with` / `alloc_try_with_mut` (inherent methods of `BumpScope`): the closure may itself allocate
/// from the same arena (shared form only), may return `Err`, and may unwind.
fn try_with<'a, A, S, T: Pod>(s: &mut BumpScope<'a, A, S>, req: &TypedReq) -> TypedRes
where
    A: BaseAllocator<S::GuaranteedAllocated>,
    S: BumpAllocatorSettings,
{
    let seed = req.seed;
    let t = req.try_;
    let want_err = req.len % 2 == 1;
    let inner = (req.len / 2) % 4; // 0 = closure allocates nothing; otherwise size class of the inner allocation
    let mut ticks = Ticks { n: 0, at: req.panic_at };
    let mutable = req.method % 2 == 1;
    let mut extra: Vec<(*mut u8, usize, usize, u8)> = Vec::new();
    let result: Result<Result<BumpBox<'a, T>, u32>, ()> = if mutable {
        let f = || {
            ticks.tick();
            if want_err { Err(7u32) } else { Ok(T::make(seed, 0)) }
        };
        if t { s.try_alloc_try_with_mut(f).map_err(drop) } else { Ok(s.alloc_try_with_mut(f)) }
    } else {
        let shared: &BumpScope<'a, A, S> = &*s;
        let f = || {
            ticks.tick();
            if inner != 0 {
                let size = match inner {
                    1 => 8,
                    2 => 200,
                    _ => shared.stats().current_chunk().map_or(64, |c| c.remaining() + 1),
                };
                let l = Layout::from_size_align(size, 1 << (seed % 4)).unwrap();
                if let Ok(p) = shared.allocate(l) {
                    let tag = seed.wrapping_add(91) | 1;
                    unsafe { std::ptr::write_bytes(p.as_ptr() as *mut u8, tag, p.len()) };
                    extra.push((p.as_ptr() as *mut u8, p.len(), l.align(), tag));
                }
            }
            if want_err { Err(7u32) } else { Ok(T::make(seed, 0)) }
        };
        if t { shared.try_alloc_try_with(f).map_err(drop) } else { Ok(shared.alloc_try_with(f)) }
    };
    match result {
        Err(()) => TypedRes::Failed,
        Ok(Ok(bx)) => match block_of(bx.into_raw().as_ptr(), 1, expect_of::<T>(seed, 1)) {
            TypedRes::Block { ptr, len, align, expect, .. } => TypedRes::Block { ptr, len, align, expect, extra },
            other => other,
        },
        Ok(Err(_)) => TypedRes::ClosureErr { extra },
    }
}

macro_rules! with_type {
    ($ty:expr, $T:ident => $e:expr) => {
        match $ty % 5 {
            0 => { type $T = u8; $e }
            1 => { type $T = u32; $e }
            2 => { type $T = u128; $e }
            3 => { type $T = [u8; 3]; $e }
            _ => { type $T = (); $e }
        }
    };
}

pub fn scope_typed<'a, A, S>(s: &mut BumpScope<'a, A, S>, c: usize, req: &TypedReq) -> TypedRes
where
    A: BaseAllocator<S::GuaranteedAllocated>,
    S: BumpAllocatorSettings,
{
    // method selector: 0..17 shared trait methods, 17..20 exclusive ones, 20..22 alloc_try_with(_mut)
    let m = req.method % 22;
    if m >= 20 {
        let mut r = req.clone();
        r.method = m - 20;
        return match req.ty % 2 {
            0 => try_with::<A, S, u64>(s, &r),
            _ => try_with::<A, S, [u8; 3]>(s, &r),
        };
    }
    if m >= 17 {
        let mut r = req.clone();
        r.method = m - 17;
        return match req.ty % 2 {
            0 => typed_mut_on::<_, u16>(s, &r),
            _ => typed_mut_on::<_, [u32; 3]>(s, &r),
        };
    }
    let mut r = req.clone();
    r.method = m;
    match c % 4 {
        // the BumpScope itself, all element types
        0 => with_type!(req.ty, T => typed_on::<BumpScope<'a, A, S>, T>(&*s, &r)),
        1 => {
            let b: &BumpScope<'a, A, S> = &*s;
            typed_on::<&BumpScope<'a, A, S>, u64>(&b, &r)
        }
        2 => {
            let d: &dyn BumpAllocatorCoreScope<'a> = &*s;
            typed_on::<dyn BumpAllocatorCoreScope<'a>, u16>(d, &r)
        }
        _ => {
            let w = WithoutDealloc(&*s);
            match typed_on::<_, [u8; 3]>(&w, &r) {
                TypedRes::Nothing { bytes, .. } => TypedRes::Nothing { bytes, inert_dealloc: true },
                other => other,
            }
        }
    }
}

/// Typed requests through the *original* handle of a claimed arena (C14): shared-reference methods only, through
/// the scope itself, a reference to it and a trait object.
pub fn shared_typed<'a, A, S>(s: &BumpScope<'a, A, S>, c: usize, req: &TypedReq) -> TypedRes
where
    A: BaseAllocator<S::GuaranteedAllocated>,
    S: BumpAllocatorSettings,
{
    let mut r = req.clone();
    r.method = req.method % 17;
    match c % 3 {
        0 => with_type!(req.ty, T => typed_on::<BumpScope<'a, A, S>, T>(s, &r)),
        1 => {
            let d: &dyn BumpAllocatorCoreScope<'a> = s;
            typed_on::<dyn BumpAllocatorCoreScope<'a>, u16>(d, &r)
        }
        _ => typed_on::<&BumpScope<'a, A, S>, u64>(&s, &r),
    }
}

pub fn root_typed<A, S>(b: &mut Bump<A, S>, _c: usize, req: &TypedReq) -> TypedRes
where
    A: BaseAllocator<S::GuaranteedAllocated>,
    S: BumpAllocatorSettings,
{
    // through `&Bump` (BumpAllocatorTypedScope is implemented for references to a Bump)
    let m = req.method % 17;
    let mut r = req.clone();
    r.method = m;
    let rb: &Bump<A, S> = &*b;
    typed_on::<&Bump<A, S>, [u32; 3]>(&rb, &r)
}

#[allow(unused)]
fn _unused<T: BumpAllocatorTyped + ?Sized>() {}
