//! Typed allocation entry points (stub: filled in later).

use bump_scope::settings::BumpAllocatorSettings;
use bump_scope::{BaseAllocator, Bump, BumpScope};

use crate::api::*;

pub fn scope_typed<'a, A, S>(_s: &mut BumpScope<'a, A, S>, _c: usize, _req: &TypedReq) -> TypedRes
where
    A: BaseAllocator<S::GuaranteedAllocated>,
    S: BumpAllocatorSettings,
{
    TypedRes::Unsupported
}

pub fn root_typed<A, S>(_b: &mut Bump<A, S>, _c: usize, _req: &TypedReq) -> TypedRes
where
    A: BaseAllocator<S::GuaranteedAllocated>,
    S: BumpAllocatorSettings,
{
    TypedRes::Unsupported
}
