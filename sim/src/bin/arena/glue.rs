//! Generic glue: drives real `Bump<A, S>` / `BumpScope<A, S>` values for the interpreter.
//! Everything here is monomorphised per (base allocator kind, settings) combination.

use std::alloc::Layout;
use std::panic::{AssertUnwindSafe, catch_unwind, resume_unwind};
use std::ptr::NonNull;

use bump_scope::alloc::Allocator;
use bump_scope::settings::{BumpAllocatorSettings, MinimumAlignment, SupportedMinimumAlignment};
use bump_scope::stats::{AnyStats, Stats};
use bump_scope::traits::{BumpAllocator, BumpAllocatorCore, BumpAllocatorCoreScope, BumpAllocatorScope, BumpAllocatorTyped, MutBumpAllocatorCore, MutBumpAllocatorCoreScope};
use bump_scope::{BaseAllocator, Bump, BumpScope, Checkpoint, WithoutDealloc, WithoutShrink};

use sim::runner::{Caught, classify_panic, harness_bug};

use crate::api::*;
use crate::model::*;
// compiled once per glue module so that the typed instances are spread over the codegen units as well
#[path = "typed.rs"]
pub mod typed;

/// Payload used to unwind out of `levels` nested frames.
pub struct UnwindLevels(pub u32);

const fn ci(name: &'static str, no_dealloc: bool, no_shrink: bool, is_dyn: bool, needs_mut: bool) -> CarrierInfo {
    CarrierInfo { name, no_dealloc, no_shrink, is_dyn, needs_mut }
}

pub const SCOPE_CARRIERS: &[CarrierInfo] = &[
    ci("BumpScope", false, false, false, false),
    ci("&BumpScope", false, false, false, false),
    ci("&mut BumpScope", false, false, false, true),
    ci("WithoutDealloc<&BumpScope>", true, false, false, false),
    ci("WithoutShrink<&BumpScope>", false, true, false, false),
    ci("WithoutDealloc<WithoutShrink<&BumpScope>>", true, true, false, false),
    ci("WithoutShrink<WithoutDealloc<&BumpScope>>", true, true, false, false),
    ci("&dyn BumpAllocatorCore", false, false, true, false),
    ci("&dyn BumpAllocatorCoreScope", false, false, true, false),
    ci("&mut dyn MutBumpAllocatorCore", false, false, true, true),
    ci("&mut dyn MutBumpAllocatorCoreScope", false, false, true, true),
    ci("WithoutDealloc<&mut BumpScope>", true, false, false, true),
];

pub const SHARED_CARRIERS: &[CarrierInfo] = &[
    ci("BumpScope", false, false, false, false),
    ci("&BumpScope", false, false, false, false),
    ci("WithoutDealloc<&BumpScope>", true, false, false, false),
    ci("WithoutShrink<&BumpScope>", false, true, false, false),
    ci("&dyn BumpAllocatorCore", false, false, true, false),
    ci("&dyn BumpAllocatorCoreScope", false, false, true, false),
];

pub const ROOT_CARRIERS: &[CarrierInfo] = &[
    ci("Bump", false, false, false, false),
    ci("&Bump", false, false, false, false),
    ci("&mut Bump", false, false, false, true),
    ci("WithoutDealloc<&Bump>", true, false, false, false),
    ci("WithoutShrink<&Bump>", false, true, false, false),
    ci("&dyn BumpAllocatorCore (Bump)", false, false, true, false),
    ci("&dyn BumpAllocatorCoreScope (&Bump)", false, false, true, false),
    ci("&mut dyn MutBumpAllocatorCore (Bump)", false, false, true, true),
    ci("&mut dyn MutBumpAllocatorCoreScope (&mut Bump)", false, false, true, true),
];

// ------------------------------------------------------------------ generic helpers over a carrier type

fn g_alloc<B: Allocator + ?Sized>(b: &B, zeroed: bool, l: Layout) -> Result<Blk, ()> {
    let r = if zeroed { b.allocate_zeroed(l) } else { b.allocate(l) };
    r.map(|p| (p.cast::<u8>().as_ptr(), p.len())).map_err(|_| ())
}

unsafe fn g_dealloc<B: Allocator + ?Sized>(b: &B, ptr: *mut u8, l: Layout) {
    unsafe { b.deallocate(NonNull::new_unchecked(ptr), l) }
}

unsafe fn g_grow<B: Allocator + ?Sized>(b: &B, zeroed: bool, ptr: *mut u8, old: Layout, new: Layout) -> Result<Blk, ()> {
    let p = unsafe { NonNull::new_unchecked(ptr) };
    let r = unsafe { if zeroed { b.grow_zeroed(p, old, new) } else { b.grow(p, old, new) } };
    r.map(|p| (p.cast::<u8>().as_ptr(), p.len())).map_err(|_| ())
}

unsafe fn g_shrink<B: Allocator + ?Sized>(b: &B, ptr: *mut u8, old: Layout, new: Layout) -> Result<Blk, ()> {
    let p = unsafe { NonNull::new_unchecked(ptr) };
    unsafe { b.shrink(p, old, new) }.map(|p| (p.cast::<u8>().as_ptr(), p.len())).map_err(|_| ())
}

fn g_prepare<B: BumpAllocatorCore + ?Sized>(b: &B, rev: bool, l: Layout) -> Result<(*mut u8, *mut u8), ()> {
    let r = if rev { b.prepare_allocation_rev(l) } else { b.prepare_allocation(l) };
    r.map(|r| (r.start.as_ptr(), r.end.as_ptr())).map_err(|_| ())
}

unsafe fn g_commit<B: BumpAllocatorCore + ?Sized>(b: &B, rev: bool, l: Layout, range: (*mut u8, *mut u8)) -> *mut u8 {
    unsafe {
        let r = NonNull::new_unchecked(range.0)..NonNull::new_unchecked(range.1);
        if rev { b.allocate_prepared_rev(l, r).as_ptr() } else { b.allocate_prepared(l, r).as_ptr() }
    }
}

fn g_reserve<B: BumpAllocatorTyped + ?Sized>(b: &B, try_: bool, n: usize) -> Result<(), ()> {
    if try_ {
        b.try_reserve(n).map_err(|_| ())
    } else {
        b.reserve(n);
        Ok(())
    }
}

fn g_checkpoint<B: BumpAllocatorCore + ?Sized>(b: &B) -> Checkpoint {
    b.checkpoint()
}

unsafe fn g_reset_to<B: BumpAllocatorCore + ?Sized>(b: &B, cp: Checkpoint) {
    unsafe { b.reset_to(cp) }
}

fn g_is_claimed<B: BumpAllocatorCore + ?Sized>(b: &B) -> bool {
    b.is_claimed()
}

/// Calls `$f(&carrier, args..)` with the carrier selected by `$c`, built from `$s: &mut BumpScope`.
macro_rules! scope_carrier {
    ($s:expr, $c:expr, $lt:lifetime, $f:ident ( $($args:expr),* )) => {
        match $c {
            0 => $f(&*$s, $($args),*),
            1 => $f(&&*$s, $($args),*),
            2 => $f(&&mut *$s, $($args),*),
            3 => $f(&WithoutDealloc(&*$s), $($args),*),
            4 => $f(&WithoutShrink(&*$s), $($args),*),
            5 => $f(&WithoutDealloc(WithoutShrink(&*$s)), $($args),*),
            6 => $f(&WithoutShrink(WithoutDealloc(&*$s)), $($args),*),
            7 => { let d: &dyn BumpAllocatorCore = &*$s; $f(d, $($args),*) }
            8 => { let d: &dyn BumpAllocatorCoreScope<$lt> = &*$s; $f(d, $($args),*) }
            9 => { let d: &mut dyn MutBumpAllocatorCore = &mut *$s; $f(&*d, $($args),*) }
            10 => { let d: &mut dyn MutBumpAllocatorCoreScope<$lt> = &mut *$s; $f(&*d, $($args),*) }
            11 => $f(&WithoutDealloc(&mut *$s), $($args),*),
            _ => unreachable!(),
        }
    };
}

macro_rules! shared_carrier {
    ($s:expr, $c:expr, $lt:lifetime, $f:ident ( $($args:expr),* )) => {
        match $c {
            0 => $f($s, $($args),*),
            1 => $f(&$s, $($args),*),
            2 => $f(&WithoutDealloc($s), $($args),*),
            3 => $f(&WithoutShrink($s), $($args),*),
            4 => { let d: &dyn BumpAllocatorCore = $s; $f(d, $($args),*) }
            5 => { let d: &dyn BumpAllocatorCoreScope<$lt> = $s; $f(d, $($args),*) }
            _ => unreachable!(),
        }
    };
}

macro_rules! root_carrier {
    ($b:expr, $c:expr, $f:ident ( $($args:expr),* )) => {
        match $c {
            0 => $f(&*$b, $($args),*),
            1 => $f(&&*$b, $($args),*),
            2 => $f(&&mut *$b, $($args),*),
            3 => $f(&WithoutDealloc(&*$b), $($args),*),
            4 => $f(&WithoutShrink(&*$b), $($args),*),
            5 => { let d: &dyn BumpAllocatorCore = &*$b; $f(d, $($args),*) }
            6 => { let r = &*$b; let d: &dyn BumpAllocatorCoreScope<'_> = &r; $f(d, $($args),*) }
            7 => { let d: &mut dyn MutBumpAllocatorCore = &mut *$b; $f(&*d, $($args),*) }
            8 => { let mut r = &mut *$b; let d: &mut dyn MutBumpAllocatorCoreScope<'_> = &mut r; $f(&*d, $($args),*) }
            _ => unreachable!(),
        }
    };
}

// ------------------------------------------------------------------ stats snapshots

fn snap_typed<A, S: BumpAllocatorSettings>(st: Stats<'_, A, S>) -> StatsSnap {
    let chunks: Vec<ChunkSnap> = st
        .small_to_big()
        .map(|c| ChunkSnap {
            chunk_start: c.chunk_start().as_ptr() as usize,
            chunk_end: c.chunk_end().as_ptr() as usize,
            content_start: c.content_start().as_ptr() as usize,
            content_end: c.content_end().as_ptr() as usize,
            pos: c.bump_position().as_ptr() as usize,
            size: c.size(),
            capacity: c.capacity(),
            allocated: c.allocated(),
            remaining: c.remaining(),
        })
        .collect();
    let cur_start = st.current_chunk().map(|c| c.chunk_start().as_ptr() as usize);
    StatsSnap {
        cur: cur_start.and_then(|s| chunks.iter().position(|c| c.chunk_start == s)),
        b2s: st.big_to_small().map(|c| c.chunk_start().as_ptr() as usize).collect(),
        walk: st.current_chunk().map(|c| {
            // the list as seen from the current chunk: iter_prev() backwards, the chunk itself, iter_next() forwards,
            // and the same again by following prev()/next() one link at a time
            let mut w: Vec<usize> = c.iter_prev().map(|c| c.chunk_start().as_ptr() as usize).collect();
            w.reverse();
            w.push(c.chunk_start().as_ptr() as usize);
            w.extend(c.iter_next().map(|c| c.chunk_start().as_ptr() as usize));
            let mut links = Vec::new();
            let mut p = c.prev();
            while let Some(x) = p {
                links.push(x.chunk_start().as_ptr() as usize);
                p = x.prev();
            }
            links.reverse();
            links.push(c.chunk_start().as_ptr() as usize);
            let mut n = c.next();
            while let Some(x) = n {
                links.push(x.chunk_start().as_ptr() as usize);
                n = x.next();
            }
            (w, links)
        }),
        chunks,
        count: st.count(),
        size: st.size(),
        capacity: st.capacity(),
        allocated: st.allocated(),
        remaining: st.remaining(),
    }
}

fn snap_any(st: AnyStats<'_>) -> StatsSnap {
    let chunks: Vec<ChunkSnap> = st
        .small_to_big()
        .map(|c| ChunkSnap {
            chunk_start: c.chunk_start().as_ptr() as usize,
            chunk_end: c.chunk_end().as_ptr() as usize,
            content_start: c.content_start().as_ptr() as usize,
            content_end: c.content_end().as_ptr() as usize,
            pos: c.bump_position().as_ptr() as usize,
            size: c.size(),
            capacity: c.capacity(),
            allocated: c.allocated(),
            remaining: c.remaining(),
        })
        .collect();
    let cur_start = st.current_chunk().map(|c| c.chunk_start().as_ptr() as usize);
    StatsSnap {
        cur: cur_start.and_then(|s| chunks.iter().position(|c| c.chunk_start == s)),
        b2s: st.big_to_small().map(|c| c.chunk_start().as_ptr() as usize).collect(),
        walk: st.current_chunk().map(|c| {
            // the list as seen from the current chunk: iter_prev() backwards, the chunk itself, iter_next() forwards,
            // and the same again by following prev()/next() one link at a time
            let mut w: Vec<usize> = c.iter_prev().map(|c| c.chunk_start().as_ptr() as usize).collect();
            w.reverse();
            w.push(c.chunk_start().as_ptr() as usize);
            w.extend(c.iter_next().map(|c| c.chunk_start().as_ptr() as usize));
            let mut links = Vec::new();
            let mut p = c.prev();
            while let Some(x) = p {
                links.push(x.chunk_start().as_ptr() as usize);
                p = x.prev();
            }
            links.reverse();
            links.push(c.chunk_start().as_ptr() as usize);
            let mut n = c.next();
            while let Some(x) = n {
                links.push(x.chunk_start().as_ptr() as usize);
                n = x.next();
            }
            (w, links)
        }),
        chunks,
        count: st.count(),
        size: st.size(),
        capacity: st.capacity(),
        allocated: st.allocated(),
        remaining: st.remaining(),
    }
}

fn info_of<S: BumpAllocatorSettings>(root: bool) -> ArenaInfo {
    ArenaInfo {
        up: S::UP,
        min_align: S::MIN_ALIGN,
        ga: S::GUARANTEED_ALLOCATED,
        deallocates: S::DEALLOCATES,
        shrinks: S::SHRINKS,
        min_chunk: S::MINIMUM_CHUNK_SIZE,
        root,
    }
}

// ------------------------------------------------------------------ handles

pub struct ScopeH<'s, 'a, A, S: BumpAllocatorSettings> {
    pub s: &'s mut BumpScope<'a, A, S>,
}

impl<'s, 'a, A, S> Arena for ScopeH<'s, 'a, A, S>
where
    A: BaseAllocator<S::GuaranteedAllocated>,
    S: BumpAllocatorSettings,
{
    fn info(&self) -> ArenaInfo {
        info_of::<S>(false)
    }
    fn carriers(&self) -> &'static [CarrierInfo] {
        SCOPE_CARRIERS
    }
    fn snap(&self) -> Snap {
        Snap { typed: snap_typed(self.s.stats()), any: snap_any(self.s.any_stats()), claimed: self.s.is_claimed() }
    }
    fn alloc(&mut self, c: usize, zeroed: bool, l: Layout) -> Result<Blk, ()> {
        scope_carrier!(self.s, c, 'a, g_alloc(zeroed, l))
    }
    unsafe fn dealloc(&mut self, c: usize, ptr: *mut u8, l: Layout) {
        unsafe { scope_carrier!(self.s, c, 'a, g_dealloc(ptr, l)) }
    }
    unsafe fn grow(&mut self, c: usize, zeroed: bool, ptr: *mut u8, old: Layout, new: Layout) -> Result<Blk, ()> {
        unsafe { scope_carrier!(self.s, c, 'a, g_grow(zeroed, ptr, old, new)) }
    }
    unsafe fn shrink(&mut self, c: usize, ptr: *mut u8, old: Layout, new: Layout) -> Result<Blk, ()> {
        unsafe { scope_carrier!(self.s, c, 'a, g_shrink(ptr, old, new)) }
    }
    fn prepare(&mut self, c: usize, rev: bool, l: Layout) -> Result<(*mut u8, *mut u8), ()> {
        scope_carrier!(self.s, c, 'a, g_prepare(rev, l))
    }
    unsafe fn commit(&mut self, c: usize, rev: bool, l: Layout, range: (*mut u8, *mut u8)) -> *mut u8 {
        unsafe { scope_carrier!(self.s, c, 'a, g_commit(rev, l, range)) }
    }
    fn reserve(&mut self, c: usize, try_: bool, n: usize) -> Result<(), ()> {
        scope_carrier!(self.s, c, 'a, g_reserve(try_, n))
    }
    fn checkpoint(&self, c: usize) -> Checkpoint {
        let s: &BumpScope<'a, A, S> = &*self.s;
        shared_carrier!(s, c % SHARED_CARRIERS.len(), 'a, g_checkpoint())
    }
    unsafe fn reset_to(&self, c: usize, cp: Checkpoint) {
        let s: &BumpScope<'a, A, S> = &*self.s;
        unsafe { shared_carrier!(s, c % SHARED_CARRIERS.len(), 'a, g_reset_to(cp)) }
    }
    fn is_claimed(&self, c: usize) -> bool {
        let s: &BumpScope<'a, A, S> = &*self.s;
        shared_carrier!(s, c % SHARED_CARRIERS.len(), 'a, g_is_claimed())
    }
    fn typed(&mut self, c: usize, req: &TypedReq) -> TypedRes {
        // The typed entry points are thin generic wrappers; instantiating them for every settings family
        // multiplies compile time, so they run on the families with DEALLOCATES and SHRINKS on (8 of 32 families,
        // all minimum alignments, both directions, guaranteed-allocated on and off).
        if const { S::DEALLOCATES == S::SHRINKS } { typed::scope_typed(self.s, c, req) } else { TypedRes::Unsupported }
    }
    fn claim_again(&self) {
        let _g = self.s.claim();
    }
}

/// A handle that only has shared access: the claimed original handle.
pub struct SharedH<'s, 'a, A, S: BumpAllocatorSettings> {
    pub s: &'s BumpScope<'a, A, S>,
}

impl<'s, 'a, A, S> Arena for SharedH<'s, 'a, A, S>
where
    A: BaseAllocator<S::GuaranteedAllocated>,
    S: BumpAllocatorSettings,
{
    fn info(&self) -> ArenaInfo {
        info_of::<S>(false)
    }
    fn carriers(&self) -> &'static [CarrierInfo] {
        SHARED_CARRIERS
    }
    fn snap(&self) -> Snap {
        Snap { typed: snap_typed(self.s.stats()), any: snap_any(self.s.any_stats()), claimed: self.s.is_claimed() }
    }
    fn alloc(&mut self, c: usize, zeroed: bool, l: Layout) -> Result<Blk, ()> {
        shared_carrier!(self.s, c, 'a, g_alloc(zeroed, l))
    }
    unsafe fn dealloc(&mut self, c: usize, ptr: *mut u8, l: Layout) {
        unsafe { shared_carrier!(self.s, c, 'a, g_dealloc(ptr, l)) }
    }
    unsafe fn grow(&mut self, c: usize, zeroed: bool, ptr: *mut u8, old: Layout, new: Layout) -> Result<Blk, ()> {
        unsafe { shared_carrier!(self.s, c, 'a, g_grow(zeroed, ptr, old, new)) }
    }
    unsafe fn shrink(&mut self, c: usize, ptr: *mut u8, old: Layout, new: Layout) -> Result<Blk, ()> {
        unsafe { shared_carrier!(self.s, c, 'a, g_shrink(ptr, old, new)) }
    }
    fn prepare(&mut self, c: usize, rev: bool, l: Layout) -> Result<(*mut u8, *mut u8), ()> {
        shared_carrier!(self.s, c, 'a, g_prepare(rev, l))
    }
    unsafe fn commit(&mut self, c: usize, rev: bool, l: Layout, range: (*mut u8, *mut u8)) -> *mut u8 {
        unsafe { shared_carrier!(self.s, c, 'a, g_commit(rev, l, range)) }
    }
    fn reserve(&mut self, c: usize, try_: bool, n: usize) -> Result<(), ()> {
        shared_carrier!(self.s, c, 'a, g_reserve(try_, n))
    }
    fn checkpoint(&self, c: usize) -> Checkpoint {
        shared_carrier!(self.s, c, 'a, g_checkpoint())
    }
    unsafe fn reset_to(&self, c: usize, cp: Checkpoint) {
        unsafe { shared_carrier!(self.s, c, 'a, g_reset_to(cp)) }
    }
    fn is_claimed(&self, c: usize) -> bool {
        shared_carrier!(self.s, c, 'a, g_is_claimed())
    }
    fn typed(&mut self, c: usize, req: &TypedReq) -> TypedRes {
        if const { S::DEALLOCATES == S::SHRINKS } { typed::shared_typed(self.s, c, req) } else { TypedRes::Unsupported }
    }
    fn claim_again(&self) {
        let _g = self.s.claim();
    }
}

pub struct RootH<'b, A: Allocator, S: BumpAllocatorSettings> {
    pub b: &'b mut Bump<A, S>,
}

impl<'b, A, S> Arena for RootH<'b, A, S>
where
    A: BaseAllocator<S::GuaranteedAllocated>,
    S: BumpAllocatorSettings,
{
    fn info(&self) -> ArenaInfo {
        info_of::<S>(true)
    }
    fn carriers(&self) -> &'static [CarrierInfo] {
        ROOT_CARRIERS
    }
    fn snap(&self) -> Snap {
        Snap { typed: snap_typed(self.b.stats()), any: snap_any(self.b.any_stats()), claimed: self.b.is_claimed() }
    }
    fn alloc(&mut self, c: usize, zeroed: bool, l: Layout) -> Result<Blk, ()> {
        root_carrier!(self.b, c, g_alloc(zeroed, l))
    }
    unsafe fn dealloc(&mut self, c: usize, ptr: *mut u8, l: Layout) {
        unsafe { root_carrier!(self.b, c, g_dealloc(ptr, l)) }
    }
    unsafe fn grow(&mut self, c: usize, zeroed: bool, ptr: *mut u8, old: Layout, new: Layout) -> Result<Blk, ()> {
        unsafe { root_carrier!(self.b, c, g_grow(zeroed, ptr, old, new)) }
    }
    unsafe fn shrink(&mut self, c: usize, ptr: *mut u8, old: Layout, new: Layout) -> Result<Blk, ()> {
        unsafe { root_carrier!(self.b, c, g_shrink(ptr, old, new)) }
    }
    fn prepare(&mut self, c: usize, rev: bool, l: Layout) -> Result<(*mut u8, *mut u8), ()> {
        root_carrier!(self.b, c, g_prepare(rev, l))
    }
    unsafe fn commit(&mut self, c: usize, rev: bool, l: Layout, range: (*mut u8, *mut u8)) -> *mut u8 {
        unsafe { root_carrier!(self.b, c, g_commit(rev, l, range)) }
    }
    fn reserve(&mut self, c: usize, try_: bool, n: usize) -> Result<(), ()> {
        root_carrier!(self.b, c, g_reserve(try_, n))
    }
    fn checkpoint(&self, _c: usize) -> Checkpoint {
        self.b.checkpoint()
    }
    unsafe fn reset_to(&self, _c: usize, cp: Checkpoint) {
        unsafe { self.b.reset_to(cp) }
    }
    fn is_claimed(&self, _c: usize) -> bool {
        self.b.is_claimed()
    }
    fn typed(&mut self, c: usize, req: &TypedReq) -> TypedRes {
        if const { S::DEALLOCATES == S::SHRINKS } { typed::root_typed(self.b, c, req) } else { TypedRes::Unsupported }
    }
    fn claim_again(&self) {
        let _g = self.b.claim();
    }
}

// ------------------------------------------------------------------ frames

/// What an unwind that arrived at a frame boundary was: an intended multi-level unwind, or a panic raised by
/// the library while a frame was being entered / left (which the model did not expect: a violation).
fn unwound_levels(p: Box<dyn std::any::Any + Send>, it: &mut Interp<'_>) -> u32 {
    match p.downcast::<UnwindLevels>() {
        Ok(l) => l.0,
        Err(p) => match classify_panic(p) {
            Caught::Harness(m) => harness_bug(m),
            Caught::Injected(n) => harness_bug(format!("injected callback panic {n} escaped its operation")),
            Caught::Library(m) => {
                let class = format!("{}/frame-operation-panicked", it.trace.prop);
                it.viol(&class, format!("entering or leaving a scope / claim / aligned region panicked: {m}"));
                1
            }
        },
    }
}

macro_rules! with_align {
    ($n:expr, $N:ident => $e:expr) => {
        match $n {
            1 => { const $N: usize = 1; $e }
            2 => { const $N: usize = 2; $e }
            4 => { const $N: usize = 4; $e }
            8 => { const $N: usize = 8; $e }
            _ => { const $N: usize = 16; $e }
        }
    };
}

pub fn frame<'a, A, S>(scope: &mut BumpScope<'a, A, S>, mut orig: Option<&mut (dyn Arena + '_)>, it: &mut Interp<'_>, first: bool) -> Flow
where
    A: BaseAllocator<S::GuaranteedAllocated>,
    S: BumpAllocatorSettings,
{
    if !first {
        let h = ScopeH { s: &mut *scope };
        it.entered(&h, orig.as_deref().map(|o| o as &dyn Arena));
    }
    loop {
        match it.next() {
            Step::Exec(op, _) => {
                let mut h = ScopeH { s: &mut *scope };
                it.exec(&mut h, orig.as_deref_mut().map(|o| o as &mut dyn Arena), &op);
            }
            Step::Exit => return Flow::Exit,
            Step::Done => return Flow::Done,
            Step::GuardReset => return Flow::GuardReset,
            Step::Root(op, idx) => {
                it.pending_root = Some((op, idx));
                return Flow::Root;
            }
            Step::Unwind(levels) => resume_unwind(Box::new(UnwindLevels(levels))),
            Step::Enter(kind, n) => {
                it.enter(kind, n);
                let r = catch_unwind(AssertUnwindSafe(|| -> Flow {
                    let orig = orig.as_deref_mut().map(|o| o as &mut dyn Arena);
                    match kind {
                        FrameKind::Scoped => scope.scoped(|inner| frame(inner, orig, it, false)),
                        FrameKind::Guard => {
                            let mut orig = orig;
                            let mut g = scope.scope_guard();
                            let mut fresh = false;
                            loop {
                                let fl = frame(g.scope(), orig.as_deref_mut().map(|o| o as &mut dyn Arena), it, fresh);
                                if fl == Flow::GuardReset {
                                    g.reset();
                                    let h = ScopeH { s: g.scope() };
                                    it.on_guard_reset(&h);
                                    fresh = true;
                                    continue;
                                }
                                break fl;
                            }
                        }
                        FrameKind::Aligned => with_align!(n, N => scope.aligned::<N, _>(|inner| frame(inner, orig, it, false))),
                        FrameKind::ScopedAligned => with_align!(n, N => scope.scoped_aligned::<N, _>(|inner| frame(inner, orig, it, false))),
                        FrameKind::Settings => {
                            if n & 0x100 == 0 {
                                let inner = scope.borrow_mut_with_settings::<S::WithMinimumAlignment<16>>();
                                frame(inner, orig, it, false)
                            } else {
                                match scope.try_by_value() {
                                    Ok(v) => {
                                        let mut v = v.with_settings::<S::WithMinimumAlignment<16>>();
                                        frame(&mut v, orig, it, false)
                                    }
                                    // creating the first chunk was refused: nothing to convert
                                    Err(_) => Flow::Exit,
                                }
                            }
                        }
                        FrameKind::Claim => {
                            drop(orig);
                            let shared: &BumpScope<'a, A, S> = &*scope;
                            let mut o = SharedH { s: shared };
                            let mut g = shared.claim();
                            frame(&mut *g, Some(&mut o), it, false)
                        }
                        FrameKind::Root => unreachable!(),
                    }
                }));
                let h = ScopeH { s: &mut *scope };
                match r {
                    Ok(fl) => {
                        it.exit(&h, false);
                        match fl {
                            Flow::Done => return Flow::Done,
                            _ => {}
                        }
                    }
                    Err(p) => {
                        let levels = unwound_levels(p, it);
                        it.exit(&h, true);
                        if levels > 1 {
                            resume_unwind(Box::new(UnwindLevels(levels - 1)));
                        }
                    }
                }
            }
        }
    }
}

pub fn run_root<A, S>(it: &mut Interp<'_>)
where
    A: BaseAllocator<S::GuaranteedAllocated> + BaseAllocator<bump_scope::settings::True> + Default,
    S: BumpAllocatorSettings,
{
    let init = it.trace.param_or("init", 0);
    let init_size = it.trace.param_or("init_size", 0) as usize;
    let cap_layout = Layout::from_size_align(init_size.max(1), 1 << (init_size % 7)).unwrap();
    let panicking = !it.faulty && init_size < 100_000 && it.trace.param_or("heap_seed", 0) % 2 == 0;
    let made: Result<Bump<A, S>, bump_scope::alloc::AllocError> = match init % 4 {
        0 if !S::GUARANTEED_ALLOCATED => Ok(Bump::default()),
        0 | 1 => {
            if panicking {
                Ok(Bump::new_in(A::default()))
            } else {
                Bump::try_new_in(A::default())
            }
        }
        2 => {
            if panicking {
                Ok(Bump::with_size_in(init_size, A::default()))
            } else {
                Bump::try_with_size_in(init_size, A::default())
            }
        }
        _ => {
            if panicking {
                Ok(Bump::with_capacity_in(cap_layout, A::default()))
            } else {
                Bump::try_with_capacity_in(cap_layout, A::default())
            }
        }
    };
    let mut bump = match made {
        Ok(b) => b,
        Err(_) => {
            if !it.faulty {
                harness_bug("creating the arena failed without any fault configured".into());
            }
            it.stats.probe("init.refused");
            it.finish();
            return;
        }
    };
    {
        let h = RootH { b: &mut bump };
        it.start_root(&h);
        if init % 4 == 3 {
            it.check_initial_capacity(&h, cap_layout.size(), cap_layout.align());
        }
    }
    let rounds = it.trace.param_or("loop_rounds", 0);
    if rounds > 0 {
        run_reset_loop(&mut bump, it, rounds);
    } else {
        loop {
            let r = catch_unwind(AssertUnwindSafe(|| frame(bump.as_mut_scope(), None, it, true)));
            match r {
                Ok(Flow::Root) => {
                    let (op, idx) = it.pending_root.take().unwrap();
                    it.cur_op = idx;
                    match op.kind {
                        K_RESET => {
                            bump.reset();
                            let h = RootH { b: &mut bump };
                            it.after_reset(&h, true);
                        }
                        K_RESET_TO_START => {
                            bump.reset_to_start();
                            let h = RootH { b: &mut bump };
                            it.after_reset(&h, false);
                        }
                        _ => {
                            let p = bump.into_raw();
                            bump = unsafe { Bump::from_raw(p) };
                            let h = RootH { b: &mut bump };
                            it.after_raw_roundtrip(&h);
                        }
                    }
                }
                Ok(Flow::Done) => break,
                Ok(_) => {}
                Err(p) => {
                    // an unwind aimed above the root frame: swallow it here
                    let _ = unwound_levels(p, it);
                }
            }
        }
    }
    // end of run: how the arena goes away
    let end = it.trace.param_or("end", 0);
    match end % 6 {
        3 | 4 | 5 => end_by_conversion(bump, it, end % 6),
        0 => drop(bump),
        1 => {
            bump.reset();
            {
                let h = RootH { b: &mut bump };
                it.after_reset(&h, true);
            }
            drop(bump)
        }
        _ => {
            let p = bump.into_raw();
            let b2: Bump<A, S> = unsafe { Bump::from_raw(p) };
            drop(b2)
        }
    }
    it.finish();
}

/// End of a run by a conversion that has a run-time requirement (C18): `with_settings` to a guaranteed-allocated
/// type needs a chunk, to a non-claimable type needs an unclaimed arena; it must panic exactly when the requirement
/// is not met, and otherwise hand over the arena unchanged with an aligned position.
fn end_by_conversion<A, S>(bump: Bump<A, S>, it: &mut Interp<'_>, how: u64)
where
    A: BaseAllocator<S::GuaranteedAllocated> + BaseAllocator<bump_scope::settings::True> + Default,
    S: BumpAllocatorSettings,
{
    fn settle<A2, S2>(it: &mut Interp<'_>, r: std::thread::Result<Bump<A2, S2>>, must_panic: bool, needle: &str, before: (usize, usize), what: &str)
    where
        A2: BaseAllocator<S2::GuaranteedAllocated>,
        S2: BumpAllocatorSettings,
    {
        match r {
            Ok(nb) => {
                if must_panic {
                    if it.on.c18 {
                        it.viol("C18/conversion-accepted", format!("{what} returned although its requirement is not met"));
                    }
                    // do not touch the converted arena: its type promises something that is not true
                    std::mem::forget(nb);
                    it.skip_final_ledger = true;
                    return;
                }
                if it.abort_run {
                    // a known finding was observed earlier in this run: the state is tainted, no more checks
                    drop(nb);
                    return;
                }
                let st = nb.stats();
                let now = (st.allocated(), st.count());
                if it.on.c18 && now != before {
                    it.viol("C18/conversion-changed-arena", format!("{what}: allocated/chunks {before:?} -> {now:?}"));
                }
                if let Some(c) = st.current_chunk() {
                    let pos = c.bump_position().as_ptr() as usize;
                    if it.on.c18 && pos % S2::MIN_ALIGN != 0 {
                        it.viol("C18/position-unaligned", format!("{what}: position {pos:#x} not a multiple of {}", S2::MIN_ALIGN));
                    }
                }
                it.stats.probe("c18.conversion_ok");
                drop(nb);
            }
            Err(p) => match classify_panic(p) {
                Caught::Harness(m) => harness_bug(m),
                Caught::Library(m) => {
                    if !must_panic {
                        if it.on.c18 {
                            it.viol("C18/conversion-rejected", format!("{what} panicked ({m}) although its requirement is met"));
                        }
                    } else {
                        if it.on.c18 && !m.contains(needle) {
                            it.viol("C18/conversion-rejected", format!("{what} panicked with an unexpected message: {m}"));
                        }
                        it.stats.probe("c18.conversion_refused");
                    }
                }
                Caught::Injected(_) => harness_bug("injected panic in a conversion".into()),
            },
        }
    }
    let st = bump.stats();
    let before = (st.allocated(), st.count());
    let unallocated = bump.as_scope().any_stats().current_chunk().is_none() && st.count() == 0;
    match how {
        3 => {
            let r = catch_unwind(AssertUnwindSafe(move || bump.with_settings::<S::WithGuaranteedAllocated<true>>()));
            settle(it, r, unallocated, "unallocated", before, "with_settings to a guaranteed-allocated type");
        }
        4 => {
            let r = catch_unwind(AssertUnwindSafe(move || bump.with_settings::<S::WithClaimable<false>>()));
            settle(it, r, false, "claimed", before, "with_settings to a non-claimable type (arena not claimed)");
        }
        _ => {
            // a leaked claim guard leaves the arena claimed for good
            std::mem::forget(bump.as_scope().claim());
            it.stats.probe("c18.conversion_of_claimed");
            let r = catch_unwind(AssertUnwindSafe(move || bump.with_settings::<S::WithClaimable<false>>()));
            // the chunks now belong to the leaked guard: they are never released
            it.skip_final_ledger = true;
            settle(it, r, true, "claimed", (0, 0), "with_settings to a non-claimable type (arena claimed)");
        }
    }
}

fn run_reset_loop<A, S>(bump: &mut Bump<A, S>, it: &mut Interp<'_>, rounds: u64)
where
    A: BaseAllocator<S::GuaranteedAllocated> + Default,
    S: BumpAllocatorSettings,
{
    let mut calls = Vec::new();
    for _ in 0..rounds {
        let before = sim::heap::with(0, |h| h.n_alloc - h.n_refused);
        it.pc = 0;
        let r = catch_unwind(AssertUnwindSafe(|| frame(bump.as_mut_scope(), None, it, true)));
        if let Err(p) = r {
            let _ = unwound_levels(p, it);
        }
        it.pending_root = None;
        calls.push(sim::heap::with(0, |h| h.n_alloc - h.n_refused) - before);
        bump.reset();
        let h = RootH { b: &mut *bump };
        it.after_reset(&h, true);
    }
    it.check_reset_loop(&calls);
}
