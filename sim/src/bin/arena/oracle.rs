//! Frame bookkeeping and the per-step / per-history oracles of the arena world.

use sim::heap;
use sim::rng::mix;

use crate::api::*;
use crate::model::*;

/// How an operation may legitimately affect `allocated()` (C13 monotonicity ledger).
#[derive(Clone, Copy, PartialEq, Eq, Debug)]
pub enum Effect {
    /// may only keep or increase `allocated()`
    Grows,
    /// dealloc / shrink of a block; `may_reclaim` = block was at the tip and no opt-out applies
    Release { may_reclaim: bool, frozen: bool },
    /// anything goes (scope exit, reset, reset_to)
    Rewinds,
    /// nothing may change at all
    Inert,
}

impl<'t> Interp<'t> {
    pub fn start_root(&mut self, arena: &dyn Arena) {
        let info = arena.info();
        let snap = arena.snap();
        let entry = self.mark(&snap);
        self.frames.push(Frame {
            kind: FrameKind::Root,
            blocks: Vec::new(),
            cps: Vec::new(),
            entry,
            min_align: info.min_align,
            outer_align: info.min_align,
            isolated: false,
            pc_begin: 0,
            replay_alloc_mark: None,
            refused_at_entry: 0,
            by_value: false,
        });
        self.last = snap;
        self.check_stats(arena, true);
    }

    /// Called in the parent frame right before the child frame is entered.
    pub fn enter(&mut self, kind: FrameKind, n: usize) {
        let parent_align = self.frames.last().unwrap().min_align;
        let entry = self.mark(&self.last.clone());
        let (isolated, replay) = if kind == FrameKind::Scoped { (n & 1 == 1, n & 2 == 2) } else { (false, false) };
        let min_align = match kind {
            FrameKind::Aligned | FrameKind::ScopedAligned => n,
            FrameKind::Settings => n & 0xff,
            _ => parent_align,
        };
        if kind == FrameKind::Claim {
            self.claim_depth += 1;
        }
        self.frames.push(Frame {
            kind,
            blocks: Vec::new(),
            cps: Vec::new(),
            entry,
            min_align,
            outer_align: parent_align,
            isolated,
            pc_begin: self.pc,
            replay_alloc_mark: if replay { Some(heap::with(0, |h| h.n_alloc - h.n_refused)) } else { None },
            refused_at_entry: heap::with(0, |h| h.n_refused) + self.failed_calls,
            by_value: kind == FrameKind::Settings && n & 0x100 != 0,
        });
        self.stats.sig_mix(0x100 + kind as u64 * 8 + min_align.trailing_zeros() as u64);
        self.stats.bump(match kind {
            FrameKind::Scoped => "frame.scoped",
            FrameKind::Guard => "frame.guard",
            FrameKind::Aligned => "frame.aligned",
            FrameKind::ScopedAligned => "frame.scoped_aligned",
            FrameKind::Claim => "frame.claim",
            FrameKind::Settings => "frame.settings",
            FrameKind::Root => "frame.root",
        });
        if replay {
            self.stats.probe("c03.replay_scopes");
        }
    }

    /// First thing inside the new frame, with the inner handle.
    pub fn entered(&mut self, arena: &dyn Arena, orig: Option<&dyn Arena>) {
        let f = self.frames.last().unwrap().clone();
        let before = self.last.clone();
        let snap = arena.snap();
        let info = arena.info();
        if info.min_align != f.min_align {
            sim::runner::harness_bug(format!("frame min_align {} but handle says {}", f.min_align, info.min_align));
        }
        match f.kind {
            FrameKind::Aligned | FrameKind::ScopedAligned | FrameKind::Settings => {
                if let Some(c) = snap.cur() {
                    if self.on.c18 && c.pos % f.min_align != 0 {
                        self.viol("C18/entry-unaligned", format!("position {:#x} not a multiple of {} at region entry", heap_off(c.pos), f.min_align));
                    }
                    if f.min_align > f.outer_align {
                        self.stats.probe("c18.raise");
                    } else if f.min_align < f.outer_align {
                        self.stats.probe("c18.lower");
                    }
                }
            }
            FrameKind::Claim => {
                if self.on.c14 {
                    if snap.typed != before.typed {
                        self.viol("C14/claim-changed-state", "the guard does not start where the original handle stopped".into());
                    }
                }
                if let Some(o) = orig {
                    self.check_orig_inert(o);
                }
            }
            _ => {}
        }
        self.last = snap;
        self.check_stats(arena, true);
    }

    /// Called in the parent frame after the child frame returned or unwound.
    pub fn exit(&mut self, arena: &dyn Arena, unwound: bool) {
        let f = self.frames.pop().unwrap();
        if self.abort_run {
            // a known finding was observed further in: the state is tainted, no more checks in this run
            if f.kind == FrameKind::Claim {
                self.claim_depth -= 1;
            }
            return;
        }
        let guard_last = self.last.clone();
        let snap = arena.snap();
        if self.verbose {
            eprintln!("    exit {:?} (by_value {}) -> pos {:?} allocated {}", f.kind, f.by_value, snap.cur().map(|c| (heap_off(c.content_start), heap_off(c.pos), heap_off(c.content_end))), snap.typed.allocated);
        }
        if unwound {
            self.stats.probe("unwind.through_frame");
        }
        if f.kind.is_scope() {
            self.check_scope_restore(&f.entry, &snap, if unwound { "scope unwound" } else { "scope exit" });
            if f.kind == FrameKind::ScopedAligned && self.on.c18 {
                let now = snap.cur().map(|c| (c.chunk_start, c.pos));
                if f.entry.pos.is_some() && now != f.entry.pos {
                    self.viol("C18/scoped-aligned-restore", format!("position after scoped_aligned {:?} != entry position {:?}", offs(now), offs(f.entry.pos)));
                }
            }
            if let Some(m) = f.replay_alloc_mark {
                // only granted requests count: a request that is refused (a fault) is repeated and refused again
                let now = heap::with(0, |h| h.n_alloc - h.n_refused);
                if self.on.c03 && now != m && !unwound {
                    self.viol("C03/replay-needed-memory", format!("replaying the same workload in a new scope made {} base-allocator calls", now - m));
                }
            }
            let fault_free = heap::with(0, |h| h.n_refused) + self.failed_calls == f.refused_at_entry;
            if f.kind == FrameKind::Scoped && f.isolated && !unwound && f.replay_alloc_mark.is_none() && fault_free {
                // cur_op is the index of the `end` op
                self.last_scope_range = Some((f.pc_begin, self.cur_op));
            }
            self.stats.add("blocks.died_with_scope", f.blocks.len() as u64);
        } else if f.by_value && self.kf_byvalue_lowered_switch && snap.cur().is_some_and(|c| c.pos % f.outer_align != 0) {
            // Known finding (see known_findings.json, F8): reported under its own class and the run stops here,
            // because everything after it is tainted by the misaligned position.
            let pos = snap.cur().map_or(0, |c| heap_off(c.pos));
            if self.on.c18 {
                self.viol("C18/exit-unaligned@by-value-copy-lowered-alignment-chunk-switch", format!("position {pos:#x} of the original handle is not a multiple of its minimum alignment {} after a by_value() copy lowered the alignment and moved on to another chunk", f.outer_align));
            }
            if self.on.c10 {
                self.viol("C10/position-unaligned@by-value-copy-lowered-alignment-chunk-switch", format!("position {pos:#x} is not a multiple of the minimum alignment in force {}", f.outer_align));
            }
            self.stats.probe("known.f8_byvalue_lowered_switch");
            self.abort_run = true;
            self.last = snap;
            return;
        } else {
            // blocks survive and now belong to the parent frame (except after `by_value()`, whose allocations are
            // bounded by the reborrow: the original handle may be on an older chunk and reuse the newer ones)
            let parent = self.frames.last_mut().unwrap();
            if !f.by_value {
                parent.blocks.extend(f.blocks);
            }
            match f.kind {
                FrameKind::Aligned | FrameKind::Settings => {
                    if let Some(c) = snap.cur() {
                        if self.on.c18 && c.pos % f.outer_align != 0 {
                            self.viol(
                                "C18/exit-unaligned",
                                format!("position {:#x} not a multiple of the outer minimum alignment {} after the region ended", heap_off(c.pos), f.outer_align),
                            );
                        }
                    }
                }
                FrameKind::Claim => {
                    self.claim_depth -= 1;
                    if self.on.c14 && snap.typed != guard_last.typed {
                        self.viol("C14/resume-mismatch", "after the claim ended the original handle is not where the guard stopped".into());
                    }
                    self.stats.probe("c14.claim_ended");
                }
                _ => {}
            }
        }
        self.last = snap;
        self.check_stats(arena, true);
        self.check_patterns(None);
    }

    /// `guard.reset()` inside a Guard frame: everything allocated in this frame so far is gone.
    pub fn on_guard_reset(&mut self, arena: &dyn Arena) {
        let snap = arena.snap();
        let entry = self.frames.last().unwrap().entry;
        self.check_scope_restore(&entry, &snap, "scope guard reset");
        let f = self.top();
        f.blocks.clear();
        f.cps.clear();
        self.last = snap;
        self.stats.probe("guard.reset");
        self.check_stats(arena, true);
        self.check_patterns(None);
    }

    pub fn check_scope_restore(&mut self, entry: &Mark, snap: &Snap, what: &str) {
        if !self.on.c03 {
            return;
        }
        let t = &snap.typed;
        match entry.pos {
            Some(p) => {
                let now = snap.cur().map(|c| (c.chunk_start, c.pos));
                if now != Some(p) {
                    self.viol("C03/position-not-restored", format!("{what}: position {:?} != position at entry {:?}", offs(now), offs(Some(p))));
                }
                if t.allocated != entry.allocated {
                    self.viol("C03/allocated-not-restored", format!("{what}: allocated() {} != {} at entry", t.allocated, entry.allocated));
                }
            }
            None => {
                // nothing had been allocated at entry: must be at the very start of the first chunk
                if t.allocated != 0 {
                    self.viol("C03/allocated-not-restored", format!("{what}: allocated() {} but the scope started on an unallocated arena", t.allocated));
                }
                if let Some(i) = t.cur {
                    if i != 0 {
                        self.viol("C03/position-not-restored", format!("{what}: current chunk is #{i}, expected the first chunk"));
                    }
                }
            }
        }
        if t.count < entry.count {
            self.viol("C03/chunk-lost", format!("{what}: count() {} < {} at entry", t.count, entry.count));
        }
        let nd = heap::with(0, |h| h.n_dealloc);
        if nd != entry.n_dealloc {
            self.viol("C03/chunk-released", format!("{what}: {} chunks were released inside the scope", nd - entry.n_dealloc));
        }
    }

    // ---------------------------------------------------------------- oracles

    /// C14: the claimed original handle reports an empty arena.
    pub fn check_orig_inert(&mut self, o: &dyn Arena) {
        if !self.on.c14 {
            return;
        }
        let s = o.snap();
        let zero = |t: &StatsSnap| t.chunks.is_empty() && t.count == 0 && t.size == 0 && t.capacity == 0 && t.allocated == 0 && t.remaining == 0 && t.cur.is_none();
        if !zero(&s.typed) || !zero(&s.any) {
            self.viol("C14/claimed-stats-nonzero", "stats of a claimed handle are not all zero".into());
        }
        if !o.is_claimed(0) {
            self.viol("C14/not-claimed", "is_claimed() is false while the guard lives".into());
        }
    }

    pub fn drain_heap_errors(&mut self) {
        let errs: Vec<(&'static str, String)> = heap::with(0, |h| std::mem::take(&mut h.errors));
        let bad = heap::with(0, |h| std::mem::take(&mut h.handle_magic_bad));
        if self.on.c05 {
            for (c, m) in errs {
                self.viol(c, m);
            }
            if bad > 0 {
                self.viol("C05/outside-granted", format!("the base-allocator value stored in a chunk header was corrupted ({bad} calls)"));
            }
        }
    }

    /// C10 (+ position alignment for C18) on `self.last`.
    pub fn check_stats(&mut self, arena: &dyn Arena, single_arena: bool) {
        self.drain_heap_errors();
        if self.abort_run {
            return;
        }
        let info = arena.info();
        let snap = self.last.clone();
        let t = &snap.typed;
        let force = self.frames.last().map_or(info.min_align, |f| f.min_align);
        // state hash for the reach measure
        let st = mix(
            mix(t.count as u64, t.cur.map_or(99, |c| c as u64)),
            mix((t.allocated / 64) as u64, mix(self.total_blocks() as u64 / 4, mix(force as u64, self.claim_depth as u64 * 16 + self.frames.len() as u64))),
        );
        self.stats.state(st);

        if let Some(c) = snap.cur() {
            if c.pos % force != 0 {
                if self.on.c18 {
                    self.viol("C18/position-unaligned", format!("position {:#x} not a multiple of the minimum alignment in force {force}", heap_off(c.pos)));
                }
                if self.on.c10 {
                    self.viol("C10/position-unaligned", format!("position {:#x} not a multiple of the minimum alignment in force {force}", heap_off(c.pos)));
                }
            }
        }
        if !self.on.c10 {
            return;
        }
        let (hsize, halign) = self.header;
        if info.ga && t.chunks.is_empty() && !snap.claimed {
            self.viol("C10/guaranteed-allocated-empty", "a guaranteed-allocated arena reports no chunk".into());
        }
        let mut prev_size = 0usize;
        let mut sum_size = 0;
        let mut sum_cap = 0;
        for (i, c) in t.chunks.iter().enumerate() {
            let is_cur = Some(i) == t.cur;
            if c.size % 16 != 0 {
                self.viol("C10/size-not-multiple-of-16", format!("chunk #{i} size {}", c.size));
            }
            if c.size != c.chunk_end - c.chunk_start {
                self.viol("C10/size-mismatch", format!("chunk #{i} size() {} != chunk_end - chunk_start {}", c.size, c.chunk_end - c.chunk_start));
            }
            if c.capacity != c.content_end.wrapping_sub(c.content_start) {
                self.viol("C10/capacity-mismatch", format!("chunk #{i} capacity() {} != content range {}", c.capacity, c.content_end.wrapping_sub(c.content_start)));
            }
            let ok_range = c.chunk_start <= c.content_start && c.content_start <= c.content_end && c.content_end <= c.chunk_end;
            if !ok_range {
                self.viol("C10/ranges-disordered", format!("chunk #{i}: {:?}", c));
            } else {
                let (h0, h1) = if info.up { (c.chunk_start, c.content_start) } else { (c.content_end, c.chunk_end) };
                if h1 - h0 != hsize {
                    self.viol("C10/header-size", format!("chunk #{i}: header range is {} bytes, header of this base allocator is {hsize}", h1 - h0));
                }
                if h0 % halign != 0 {
                    self.viol("C10/header-misaligned", format!("chunk #{i}: header at {:#x} not aligned to {halign}", heap_off(h0)));
                }
            }
            let in_grant = heap::with(0, |h| h.live_grant_containing(c.chunk_start, c.size).is_some());
            if !in_grant {
                self.viol("C10/chunk-outside-grant", format!("chunk #{i} [{:#x},{:#x}) is not inside a block currently granted by the base allocator", heap_off(c.chunk_start), heap_off(c.chunk_end)));
            }
            if is_cur {
                if !(c.content_start <= c.pos && c.pos <= c.content_end) {
                    self.viol("C10/position-outside-content", format!("position {:#x} outside [{:#x},{:#x}]", heap_off(c.pos), heap_off(c.content_start), heap_off(c.content_end)));
                } else if c.allocated + c.remaining != c.capacity {
                    self.viol("C10/chunk-identity", format!("current chunk: allocated {} + remaining {} != capacity {}", c.allocated, c.remaining, c.capacity));
                }
            }
            if i > 0 && c.size <= prev_size {
                self.viol("C10/sizes-not-increasing", format!("chunk #{i} size {} <= previous {}", c.size, prev_size));
            }
            prev_size = c.size;
            sum_size += c.size;
            sum_cap += c.capacity;
        }
        let fwd: Vec<usize> = t.chunks.iter().map(|c| c.chunk_start).collect();
        let mut back = t.b2s.clone();
        back.reverse();
        if fwd != back {
            self.viol("C10/list-asymmetric", "small_to_big() reversed != big_to_small()".into());
        }
        if let Some((w, links)) = &t.walk {
            if *w != fwd || *links != fwd {
                self.viol("C10/list-asymmetric", format!("the chunk list walked from the current chunk (iter_prev/iter_next: {} chunks, prev()/next(): {} chunks) differs from small_to_big() ({} chunks)", w.len(), links.len(), fwd.len()));
            }
        }
        if t.count != t.chunks.len() {
            self.viol("C10/count", format!("count() {} != number of chunks {}", t.count, t.chunks.len()));
        }
        if t.size != sum_size || t.capacity != sum_cap {
            self.viol("C10/totals", format!("size() {} capacity() {} vs sums {} {}", t.size, t.capacity, sum_size, sum_cap));
        }
        if let Some(ci) = t.cur {
            let alloc: usize = t.chunks[ci].allocated + t.chunks[..ci].iter().map(|c| c.capacity).sum::<usize>();
            let rem: usize = t.chunks[ci].remaining + t.chunks[ci + 1..].iter().map(|c| c.capacity).sum::<usize>();
            if t.allocated != alloc || t.remaining != rem {
                self.viol("C10/totals", format!("allocated() {} remaining() {} vs expected {} {}", t.allocated, t.remaining, alloc, rem));
            }
        }
        if t.allocated + t.remaining != t.capacity || t.capacity > t.size {
            self.viol("C10/identity", format!("allocated {} + remaining {} = capacity {} <= size {} violated", t.allocated, t.remaining, t.capacity, t.size));
        }
        if single_arena && !snap.claimed {
            let out = heap::with(0, |h| h.outstanding());
            if out != t.count {
                self.viol("C10/count-vs-outstanding", format!("count() {} but the base allocator has {} outstanding blocks", t.count, out));
            }
        }
        if snap.any != snap.typed {
            let a = &snap.any;
            let what = if a.count != t.count {
                format!("count {} vs {}", a.count, t.count)
            } else if a.capacity != t.capacity || a.allocated != t.allocated || a.remaining != t.remaining || a.size != t.size {
                format!("any: size {} cap {} alloc {} rem {}; typed: size {} cap {} alloc {} rem {}", a.size, a.capacity, a.allocated, a.remaining, t.size, t.capacity, t.allocated, t.remaining)
            } else {
                "chunk ranges differ".to_string()
            };
            self.viol("C10/any-mismatch", what);
        }
    }

    pub fn total_blocks(&self) -> usize {
        self.frames.iter().map(|f| f.blocks.len()).sum()
    }

    /// C02: every live block still holds its pattern. `skip` = id of a block that is checked separately.
    pub fn check_patterns(&mut self, skip: Option<u32>) {
        if !self.on.c02 {
            return;
        }
        let mut bad: Option<(u32, usize, usize, u8)> = None;
        'outer: for f in &self.frames {
            for b in &f.blocks {
                if Some(b.id) == skip {
                    continue;
                }
                if let Some(i) = first_mismatch(b.ptr, b.id, 0, b.len) {
                    bad = Some((b.id, heap_off(b.ptr as usize), i, unsafe { b.ptr.add(i).read() }));
                    break 'outer;
                }
            }
        }
        if let Some((id, off, i, v)) = bad {
            self.viol("C02/live-block-changed", format!("block #{id} at {off:#x}: byte +{i} reads {v:#04x}, expected {:#04x}", pat(id, i)));
        }
    }

    /// C01 for a freshly handed-out block.
    pub fn check_new_block(&mut self, arena: &dyn Arena, ptr: *mut u8, len: usize, req: usize, align: usize, snap: &Snap, via_trait: bool) {
        if !self.on.c01 {
            return;
        }
        let addr = ptr as usize;
        let info = arena.info();
        if len < req {
            self.viol("C01/too-small", format!("block of {len} bytes returned for a request of {req}"));
        }
        if addr % align != 0 {
            self.viol("C01/misaligned", format!("block at {:#x} not aligned to {align}", heap_off(addr)));
        }
        if len == 0 && !via_trait {
            return;
        }
        let chunk = snap.typed.chunks.iter().enumerate().find(|(_, c)| c.content_start <= addr && addr + len <= c.content_end);
        match chunk {
            None => self.viol("C01/outside-chunk", format!("block [{:#x},+{len}) is not inside the content range of any chunk", heap_off(addr))),
            Some((i, c)) => {
                let granted = heap::with(0, |h| h.live_grant_containing(c.chunk_start, c.size).is_some());
                if !granted {
                    self.viol("C01/outside-owned-memory", format!("chunk #{i} holding the block is not memory currently granted to the arena"));
                }
                if len > 0 && Some(i) == snap.typed.cur {
                    let beyond = if info.up { addr + len > c.pos } else { addr < c.pos };
                    if beyond {
                        self.viol("C01/beyond-position", format!("block [{:#x},+{len}) handed out but the bump position {:#x} has not moved past it", heap_off(addr), heap_off(c.pos)));
                    }
                }
            }
        }
        if len > 0 {
            let mut hit = None;
            for f in &self.frames {
                for b in &f.blocks {
                    let (a0, a1) = (b.ptr as usize, b.ptr as usize + b.len);
                    if b.len > 0 && a0 < addr + len && addr < a1 {
                        hit = Some((b.id, heap_off(a0), b.len));
                    }
                }
            }
            if let Some((id, off, l)) = hit {
                self.viol("C01/overlap", format!("new block [{:#x},+{len}) overlaps live block #{id} [{off:#x},+{l})", heap_off(addr)));
            }
        }
    }

    /// C13 monotonicity of `allocated()` across one operation.
    pub fn check_effect(&mut self, before: &Snap, after: &Snap, eff: Effect, what: &str) {
        if !self.on.c13 {
            return;
        }
        let (b, a) = (before.typed.allocated, after.typed.allocated);
        match eff {
            Effect::Grows => {
                if a < b {
                    self.viol("C13/allocated-decreased", format!("{what}: allocated() went from {b} to {a}"));
                }
            }
            Effect::Release { may_reclaim, frozen } => {
                if frozen && a != b {
                    self.viol("C13/optout-ignored", format!("{what}: allocated() changed from {b} to {a} although deallocation is switched off"));
                } else if !may_reclaim && a < b {
                    self.viol("C13/reclaimed-non-tip", format!("{what}: allocated() decreased from {b} to {a} although the block is not the most recent allocation or reclaiming is switched off"));
                }
            }
            Effect::Inert => {
                if before.typed != after.typed {
                    self.viol("C13/inert-changed", format!("{what}: arena state changed"));
                }
            }
            Effect::Rewinds => {}
        }
    }

    /// C12 at the seam: looks at the base-allocator calls made during the current op.
    /// `primitive`: Some(layout size) if the op carries exactly one layout.
    pub fn check_chunk_creation(&mut self, arena: &dyn Arena, before: &Snap, after: &Snap, primitive: Option<usize>, succeeded: bool) {
        let op = self.cur_op as u32 + 1;
        let (grants, refusals): (Vec<heap::Grant>, Vec<heap::Refusal>) = heap::with(0, |h| {
            (h.grants.iter().filter(|g| g.op == op).cloned().collect(), h.refusals.iter().filter(|r| r.op == op).cloned().collect())
        });
        if !grants.is_empty() {
            self.stats.probe("chunk.created");
            if grants.len() > 1 {
                self.stats.probe("chunk.created_several_in_one_op");
            }
        }
        if !self.on.c12 {
            return;
        }
        let info = arena.info();
        let (hsize, halign) = self.header;
        let mut prev = before.typed.chunks.last().map(|c| c.size);
        let calls = grants.iter().map(|g| (g.req_size, g.req_align, true)).chain(refusals.iter().map(|r| (r.size, r.align, false)));
        for (size, align, _granted) in calls {
            if size % 16 != 0 || (!info.up && size % halign != 0) {
                self.viol("C12/size-not-rounded", format!("chunk of {size} bytes requested (header alignment {halign}, up={})", info.up));
            }
            if align != halign {
                self.viol("C12/wrong-alignment", format!("chunk requested with alignment {align}, header alignment is {halign}"));
            }
            if let Some(l) = primitive {
                if size < hsize.saturating_add(l) {
                    self.viol("C12/too-small-for-request", format!("chunk of {size} bytes requested for a layout of {l} bytes plus a {hsize}-byte header"));
                }
            } else if size < hsize {
                self.viol("C12/too-small-for-request", format!("chunk of {size} bytes requested, header alone is {hsize}"));
            }
        }
        for g in &grants {
            if let Some(p) = prev {
                if g.req_size < 2 * p - 16 {
                    self.viol("C12/growth", format!("new chunk requested with {} bytes, previous chunk has {p}", g.req_size));
                }
            }
            // actual size of this chunk as the arena uses it
            prev = after.typed.chunks.iter().find(|c| c.chunk_start == heap::with(0, |h| h.base()) + g.off).map(|c| c.size).or(prev);
        }
        if primitive.is_some() && succeeded && grants.len() > 1 {
            self.viol("C12/second-chunk", format!("one request made the arena obtain {} chunks: the first fresh chunk did not fit it", grants.len()));
        }
    }
}

pub fn heap_off(addr: usize) -> usize {
    heap::with(0, |h| h.off(addr))
}

pub fn offs(p: Option<(usize, usize)>) -> Option<(usize, usize)> {
    p.map(|(a, b)| (heap_off(a), heap_off(b)))
}
