//! Execution of the non-structural operations of the arena world.

use std::alloc::Layout;
use std::panic::{AssertUnwindSafe, catch_unwind};

use sim::heap;
use sim::runner::{Caught, classify_panic, harness_bug};
use sim::trace::Op;

use crate::api::*;
use crate::model::*;
use crate::oracle::{Effect, heap_off};

pub const MAX_LIVE_BYTES: usize = 4 << 20;

/// Outcome of a guarded call into the arena.
enum Call<T> {
    Ok(T),
    Failed,
    Panicked(String),
}

impl<'t> Interp<'t> {
    fn guarded<T>(&mut self, op: &Op, f: impl FnOnce() -> Result<T, ()>) -> Call<T> {
        heap::with(0, |h| h.begin_op(self.cur_op as u32 + 1, if op.fail_nth != 0 { Some(op.fail_nth) } else { None }, op.burst));
        let r = catch_unwind(AssertUnwindSafe(f));
        heap::with(0, |h| h.end_op());
        match r {
            Ok(Ok(v)) => Call::Ok(v),
            Ok(Err(())) => Call::Failed,
            Err(p) => match classify_panic(p) {
                Caught::Library(m) => Call::Panicked(m),
                Caught::Harness(m) => harness_bug(m),
                Caught::Injected(n) => harness_bug(format!("injected panic {n} in an operation without callbacks")),
            },
        }
    }

    fn refusals_in_op(&self) -> usize {
        let op = self.cur_op as u32 + 1;
        heap::with(0, |h| h.refusals.iter().filter(|r| r.op == op).count())
    }

    fn decode_size(&self, mode: u64, val: u64) -> usize {
        let cur = self.last.cur();
        let remaining = cur.map_or(0, |c| c.remaining);
        let cap = cur.map_or(64, |c| c.capacity);
        let v = val as usize;
        // a reset loop needs a *fixed* workload: sizes relative to the current chunk would grow with it
        let mode = if self.trace.param_or("loop_rounds", 0) > 0 || self.frames.iter().any(|f| f.isolated) { 0 } else { mode };
        match mode % 6 {
            0 => v % (1 << 20),
            1 => remaining.saturating_sub(v % 64),
            2 => remaining + 1 + v % 64,
            3 => (cap * (1 + v % 3)).min(1 << 20),
            4 => (isize::MAX as usize).saturating_sub(v % 4096),
            _ => (1usize << 40).wrapping_add(v),
        }
    }

    fn new_block(&mut self, ptr: *mut u8, len: usize, req: usize, align: usize, id: Option<u32>) -> u32 {
        let id = id.unwrap_or_else(|| {
            let i = self.next_id;
            self.next_id += 1;
            i
        });
        self.seq += 1;
        let seq = self.seq;
        self.top().blocks.push(Block { id, ptr, len, req, align, seq });
        id
    }

    /// Picks a live block: returns (frame index, block index).
    fn pick_block(&self, sel: u64) -> Option<(usize, usize)> {
        let lo = self.frames.iter().position(|f| f.isolated).unwrap_or(0);
        let top = self.frames.len() - 1;
        let n_top = self.frames[top].blocks.len();
        if sel % 4 != 0 && n_top > 0 {
            return Some((top, (sel / 4) as usize % n_top));
        }
        let total: usize = self.frames[lo..].iter().map(|f| f.blocks.len()).sum();
        if total == 0 {
            return None;
        }
        let mut k = (sel / 4) as usize % total;
        for (fi, f) in self.frames.iter().enumerate().skip(lo) {
            if k < f.blocks.len() {
                return Some((fi, k));
            }
            k -= f.blocks.len();
        }
        None
    }

    fn is_tip(&self, info: &ArenaInfo, ptr: *mut u8, size: usize) -> bool {
        match self.last.cur() {
            Some(c) => {
                if info.up {
                    ptr as usize + size == c.pos
                } else {
                    ptr as usize == c.pos
                }
            }
            None => false,
        }
    }

    /// Can a panicking entry point be used for a request of `bytes` without any chance of a refusal
    /// (which would end in `handle_alloc_error`, i.e. a process abort)?
    pub fn panicking_safe(&self, bytes: usize) -> bool {
        if self.faulty {
            return false;
        }
        let biggest = self.last.typed.chunks.last().map_or(0, |c| c.size);
        let worst = (2 * biggest).max(bytes.saturating_add(8192)).saturating_mul(8);
        worst < heap::HUGE / 2 && heap::with(0, |h| h.used).saturating_add(worst) < heap::REGION_SIZE / 4
    }

    fn post(&mut self, arena: &dyn Arena, before: &Snap, eff: Effect, what: &str, primitive: Option<usize>, succeeded: bool) {
        let snap = arena.snap();
        self.check_effect(before, &snap, eff, what);
        self.check_chunk_creation(arena, before, &snap, primitive, succeeded);
        if snap.typed.cur != before.typed.cur || snap.typed.count != before.typed.count {
            self.stats.probe("chunk.switched");
            // condition of known finding F8: inside a by_value() copy with lowered alignment the copy left a chunk
            // whose position is not a multiple of the copy's own minimum alignment
            let top_align = self.frames.last().unwrap().min_align;
            let left_pos = before.typed.cur.and_then(|i| snap.typed.chunks.get(i)).map(|c| c.pos);
            if let Some(pos) = left_pos {
                if self.frames.iter().any(|f| f.by_value && top_align < f.min_align && pos % f.min_align != 0) {
                    self.kf_byvalue_lowered_switch = true;
                }
            }
        }
        self.last = snap;
        self.check_stats(arena, true);
        self.check_patterns(None);
    }

    fn failed_call(&mut self, what: &str, panicked: Option<String>, claimed_ok: bool) {
        self.failed_calls += 1;
        if let Some(m) = panicked {
            if self.on.c07 || self.on.c01 {
                let class = if self.on.c07 { "C07/allocator-call-unwound" } else { "C01/allocator-call-unwound" };
                self.viol(class, format!("{what} panicked instead of returning an error: {m}"));
            }
            return;
        }
        if self.refusals_in_op() > 0 {
            self.stats.probe("fault.op_failed_cleanly");
        } else if !claimed_ok {
            self.stats.bump("fail.without_refusal");
        }
    }

    // ---------------------------------------------------------------- ops

    pub fn exec(&mut self, arena: &mut dyn Arena, orig: Option<&mut dyn Arena>, op: &Op) {
        self.stats.steps += 1;
        self.stats.sig_mix(op.kind as u64);
        if self.verbose {
            eprintln!("[{}] depth {} {} | pos {:?} allocated {} chunks {}", self.cur_op, self.depth(), sim::trace::op_text(op, OP_NAMES), self.last.cur().map(|c| (heap_off(c.content_start), heap_off(c.pos), heap_off(c.content_end))), self.last.typed.allocated, self.last.typed.count);
        }
        if self.live_bytes() > MAX_LIVE_BYTES && matches!(op.kind, K_ALLOC | K_GROW | K_TYPED | K_TRIPLE | K_GROWTIP | K_PREP) {
            return;
        }
        match op.kind {
            K_ALLOC => self.op_alloc(arena, op),
            K_GROW => self.op_grow(arena, op),
            K_SHRINK => self.op_shrink(arena, op),
            K_DEALLOC => self.op_dealloc(arena, op),
            K_PREP => self.op_prep(arena, op),
            K_RESERVE => self.op_reserve(arena, op),
            K_CHECKPOINT => self.op_checkpoint(arena, op),
            K_RESET_TO => self.op_reset_to(arena, op),
            K_TRIPLE => self.op_triple(arena, op),
            K_GROWTIP => self.op_growtip(arena, op),
            K_TYPED => self.op_typed(arena, op),
            K_O_ALLOC | K_O_GROW | K_O_DEALLOC | K_O_SHRINK | K_O_RESERVE | K_O_MISC => {
                if let Some(o) = orig {
                    self.op_orig(arena, o, op);
                }
            }
            _ => {}
        }
    }

    pub fn live_bytes(&self) -> usize {
        self.frames.iter().flat_map(|f| f.blocks.iter()).map(|b| b.len).sum()
    }

    fn layout(size: usize, align_log2: u64) -> Option<Layout> {
        Layout::from_size_align(size, 1usize << (align_log2 % 30)).ok()
    }

    fn op_alloc(&mut self, arena: &mut dyn Arena, op: &Op) {
        let carriers = arena.carriers();
        let c = op.a[0] as usize % carriers.len();
        let size = self.decode_size(op.a[1], op.a[2]);
        let Some(l) = Self::layout(size, op.a[3]) else { return };
        let zeroed = op.a[4] & 1 == 1;
        let before = self.last.clone();
        self.stats.bump(if carriers[c].is_dyn { "carrier.dyn" } else { "carrier.static" });
        let r = self.guarded(op, || arena.alloc(c, zeroed, l));
        let ok = matches!(r, Call::Ok(_));
        match r {
            Call::Ok((ptr, len)) => {
                let snap = arena.snap();
                self.check_new_block(arena, ptr, len, l.size(), l.align(), &snap, true);
                if self.viols.is_empty() || self.in_bounds(&snap, ptr, len) {
                    if zeroed && self.on.c02 {
                        if let Some(i) = sim::pattern::first_nonzero(ptr, 0, len) {
                            self.viol("C02/zeroed-not-zero", format!("allocate_zeroed: byte +{i} of the block at {:#x} is not zero", heap_off(ptr as usize)));
                        }
                    }
                    let id = self.new_block(ptr, len, l.size(), l.align(), None);
                    fill(ptr, id, 0, len);
                }
                if l.size() == 0 {
                    self.stats.probe("alloc.zero_size");
                }
                if l.align() > 16 {
                    self.stats.probe("alloc.over_aligned");
                }
            }
            Call::Failed => {
                if size > heap::HUGE {
                    self.stats.probe("alloc.giant_refused");
                }
                self.failed_call("allocate", None, false)
            }
            Call::Panicked(m) => self.failed_call("allocate", Some(m), false),
        }
        self.post(arena, &before, Effect::Grows, "allocate", Some(l.size()), ok);
    }

    /// Is the block inside some chunk's content range (safe to write to)?
    fn in_bounds(&self, snap: &Snap, ptr: *mut u8, len: usize) -> bool {
        let a = ptr as usize;
        len == 0 || snap.typed.chunks.iter().any(|c| c.content_start <= a && a + len <= c.content_end)
    }

    fn take_block(&mut self, fi: usize, bi: usize) -> Block {
        self.frames[fi].blocks.swap_remove(bi)
    }

    fn op_grow(&mut self, arena: &mut dyn Arena, op: &Op) {
        let carriers = arena.carriers();
        let info = arena.info();
        let c = op.a[0] as usize % carriers.len();
        let Some((fi, bi)) = self.pick_block(op.a[1]) else { return };
        let b = self.frames[fi].blocks[bi].clone();
        let fit = op.a[5] & 1 == 1;
        let zeroed = op.a[5] & 2 == 2;
        let old_size = if fit { b.len } else { b.req };
        let extra = self.decode_size(op.a[2], op.a[3]);
        let Some(new_size) = old_size.checked_add(extra) else { return };
        let old = Layout::from_size_align(old_size, b.align).unwrap();
        let new_align_log2 = if op.a[4] >= 64 { b.align.trailing_zeros() as u64 } else { op.a[4] };
        let Some(new) = Self::layout(new_size, new_align_log2) else { return };
        let before = self.last.clone();
        let tip = self.is_tip(&info, b.ptr, old_size);
        let shadow = if self.on.c02 { heap::with(0, |h| h.snapshot_live(256 << 10)) } else { None };
        let r = self.guarded(op, || unsafe { arena.grow(c, zeroed, b.ptr, old, new) });
        let ok = matches!(r, Call::Ok(_));
        match r {
            Call::Ok((ptr, len)) => {
                self.take_block(fi, bi);
                let snap = arena.snap();
                self.check_new_block(arena, ptr, len, new.size(), new.align(), &snap, true);
                if self.in_bounds(&snap, ptr, len) {
                    if self.on.c02 {
                        if let Some(i) = first_mismatch(ptr, b.id, 0, old_size.min(len)) {
                            self.viol("C02/realloc-prefix", format!("grow: byte +{i} of the old contents was not preserved (block #{}, {} -> {} bytes)", b.id, old_size, new.size()));
                        }
                        if zeroed {
                            // old_size..old len: preserved or zero; old len..new len: zero
                            let from = b.len.max(old_size).min(len);
                            if let Some(i) = sim::pattern::first_nonzero(ptr, from, len) {
                                self.viol("C02/zeroed-not-zero", format!("grow_zeroed: byte +{i} of the new tail is not zero (block #{}, {} -> {} bytes)", b.id, old_size, new.size()));
                            }
                            for i in old_size..from {
                                let v = unsafe { ptr.add(i).read() };
                                if v != 0 && v != pat(b.id, i) {
                                    self.viol("C02/zeroed-not-zero", format!("grow_zeroed: byte +{i} is neither preserved nor zero"));
                                    break;
                                }
                            }
                        }
                        if let Some(sh) = &shadow {
                            self.write_set_check(sh, &snap, &before, info.up, ptr as usize, len, "grow");
                        }
                    }
                    self.new_block(ptr, len, new.size(), new.align(), Some(b.id));
                    fill(ptr, b.id, old_size.min(len), len);
                }
                if ptr == b.ptr {
                    self.stats.probe("grow.in_place");
                } else {
                    self.stats.probe("grow.moved");
                }
                if self.on.c13 && info.up && tip && (b.ptr as usize) % new.align() == 0 && !carriers[c].is_dyn_claimed() {
                    let room = before.cur().map_or(0, |ch| ch.content_end - b.ptr as usize);
                    if new.size() <= room && ptr != b.ptr {
                        self.viol("C13/grow-moved", format!("growing the most recent allocation (upward arena, {} bytes of room, {} requested) returned a different address", room, new.size()));
                    }
                }
            }
            Call::Failed => self.failed_call("grow", None, false),
            Call::Panicked(m) => self.failed_call("grow", Some(m), false),
        }
        self.post(arena, &before, Effect::Grows, "grow", Some(new.size()), ok);
    }

    /// C02 (c): bytes changed by a reallocation must lie inside the new block, inside chunk headers,
    /// or inside memory granted during the operation.
    fn write_set_check(&mut self, shadow: &[(usize, Vec<u8>)], after: &Snap, _before: &Snap, up: bool, new_addr: usize, new_len: usize, what: &str) {
        let base = heap::with(0, |h| h.base());
        let new_off = new_addr - base;
        for (off, old) in shadow {
            let now: Vec<u8> = heap::with(0, |h| h.read(*off, old.len()).to_vec());
            if &now == old {
                continue;
            }
            let mut from = 0;
            while let Some(i) = sim::pattern::first_diff(&now, old, from) {
                from = i + 1;
                {
                    let o = off + i;
                    if o >= new_off && o < new_off + new_len {
                        from = new_off + new_len - off; // skip the rest of the new block
                        continue;
                    }
                    // inside a chunk header?
                    let a = base + o;
                    let in_header = after.typed.chunks.iter().any(|c| if up { c.chunk_start <= a && a < c.content_start } else { c.content_end <= a && a < c.chunk_end });
                    if in_header {
                        continue;
                    }
                    self.viol("C02/realloc-writes-outside", format!("{what}: byte at heap offset {o:#x} changed ({:#04x} -> {:#04x}); the new block is [{new_off:#x},+{new_len})", old[i], now[i]));
                    return;
                }
            }
        }
    }

    fn op_shrink(&mut self, arena: &mut dyn Arena, op: &Op) {
        let carriers = arena.carriers();
        let info = arena.info();
        let c = op.a[0] as usize % carriers.len();
        let Some((fi, bi)) = self.pick_block(op.a[1]) else { return };
        let b = self.frames[fi].blocks[bi].clone();
        let fit = op.a[4] & 1 == 1;
        let old_size = if fit { b.len } else { b.req };
        let new_size = (old_size as u128 * (op.a[2] % 1001) as u128 / 1000) as usize;
        let old = Layout::from_size_align(old_size, b.align).unwrap();
        let new_align_log2 = if op.a[3] >= 64 { b.align.trailing_zeros() as u64 } else { op.a[3] % 13 };
        let Some(new) = Self::layout(new_size, new_align_log2) else { return };
        let before = self.last.clone();
        let tip = self.is_tip(&info, b.ptr, old_size);
        let aligned = (b.ptr as usize) % new.align() == 0;
        let shadow = if self.on.c02 { heap::with(0, |h| h.snapshot_live(256 << 10)) } else { None };
        let r = self.guarded(op, || unsafe { arena.shrink(c, b.ptr, old, new) });
        let ok = matches!(r, Call::Ok(_));
        let no_shrink = !info.shrinks || carriers[c].no_shrink;
        match r {
            Call::Ok((ptr, len)) => {
                self.take_block(fi, bi);
                let snap = arena.snap();
                self.check_new_block(arena, ptr, len, new.size(), new.align(), &snap, true);
                if self.on.c13 && no_shrink && ((ptr as usize) % new.align() != 0 || len < new.size()) {
                    // "all calls remain valid" with the opt-outs: the block returned must satisfy the new layout
                    self.viol("C13/optout-shrink-invalid-block", format!("shrink with shrinking switched off returned {:#x} ({len} bytes) for the layout ({}, align {})", heap_off(ptr as usize), new.size(), new.align()));
                }
                if self.in_bounds(&snap, ptr, len) {
                    if self.on.c02 {
                        if let Some(i) = first_mismatch(ptr, b.id, 0, new_size.min(len)) {
                            self.viol("C02/realloc-prefix", format!("shrink: byte +{i} of the surviving prefix was not preserved (block #{}, {} -> {} bytes, align {} -> {})", b.id, old_size, new_size, b.align, new.align()));
                        }
                        if let Some(sh) = &shadow {
                            self.write_set_check(sh, &snap, &before, info.up, ptr as usize, len, "shrink");
                        }
                    }
                    self.new_block(ptr, len, new.size(), new.align(), Some(b.id));
                    fill(ptr, b.id, 0, len);
                }
                if !aligned {
                    self.stats.probe("shrink.unfit_alignment");
                } else if ptr != b.ptr {
                    self.stats.probe("shrink.moved_down");
                } else if snap.typed.allocated < before.typed.allocated {
                    self.stats.probe("shrink.reclaimed");
                }
            }
            Call::Failed => self.failed_call("shrink", None, false),
            Call::Panicked(m) => self.failed_call("shrink", Some(m), false),
        }
        // a shrink never decreases allocated() with the opt-outs; without them only a tip block may reclaim
        let eff = Effect::Release { may_reclaim: tip && !no_shrink, frozen: false };
        self.post(arena, &before, eff, "shrink", if aligned { None } else { Some(new.size()) }, ok);
    }

    fn op_dealloc(&mut self, arena: &mut dyn Arena, op: &Op) {
        let carriers = arena.carriers();
        let info = arena.info();
        let c = op.a[0] as usize % carriers.len();
        let Some((fi, bi)) = self.pick_block(op.a[1]) else { return };
        let b = self.take_block(fi, bi);
        let fit = op.a[2] & 1 == 1;
        let size = if fit { b.len } else { b.req };
        let l = Layout::from_size_align(size, b.align).unwrap();
        let before = self.last.clone();
        let tip = self.is_tip(&info, b.ptr, size);
        let frozen = !info.deallocates || carriers[c].no_dealloc;
        let r = self.guarded(op, || {
            unsafe { arena.dealloc(c, b.ptr, l) };
            Ok(())
        });
        if let Call::Panicked(m) = r {
            self.failed_call("deallocate", Some(m), false);
        }
        if tip && !frozen {
            self.stats.probe("dealloc.tip");
        } else if frozen {
            self.stats.probe("dealloc.opted_out");
        }
        self.post(arena, &before, Effect::Release { may_reclaim: tip && !frozen, frozen }, "deallocate", None, true);
    }

    fn op_prep(&mut self, arena: &mut dyn Arena, op: &Op) {
        let carriers = arena.carriers();
        let info = arena.info();
        let c = op.a[0] as usize % carriers.len();
        let rev = op.a[1] & 1 == 1;
        let align = 1usize << (op.a[3] % 8);
        let units = 1 + (op.a[2] as usize % 64);
        let Ok(l) = Layout::from_size_align(units * align, align) else { return };
        let commit_align = align >> (op.a[5] as usize % 8).min(align.trailing_zeros() as usize);
        let max_units = units * align / commit_align;
        let commit_units = op.a[4] as usize % (max_units + 1);
        let cl = Layout::from_size_align(commit_units * commit_align, commit_align).unwrap();
        let before = self.last.clone();
        let r = self.guarded(op, || arena.prepare(c, rev, l));
        let ok = matches!(r, Call::Ok(_));
        match r {
            Call::Ok((start, end)) => {
                let mid = arena.snap();
                let (s, e) = (start as usize, end as usize);
                if self.on.c01 {
                    if s % align != 0 || e % align != 0 {
                        self.viol("C01/prepared-misaligned", format!("prepared range [{:#x},{:#x}) not aligned to {align}", heap_off(s), heap_off(e)));
                    }
                    if e < s || e - s < l.size() {
                        self.viol("C01/prepared-too-small", format!("prepared range of {} bytes for a request of {}", e.wrapping_sub(s), l.size()));
                    }
                    let free = mid.cur().map(|ch| if info.up { (ch.pos, ch.content_end) } else { (ch.content_start, ch.pos) });
                    match free {
                        Some((f0, f1)) if f0 <= s && e <= f1 => {}
                        _ => self.viol("C01/prepared-outside-free-space", format!("prepared range [{:#x},{:#x}) is not inside the free space of the current chunk", heap_off(s), heap_off(e))),
                    }
                }
                let free_ok = mid.cur().is_some_and(|ch| ch.content_start <= s && e <= ch.content_end && s <= e);
                if free_ok && e - s >= cl.size() {
                    // put the data where the commit expects it, then commit
                    let id = self.next_id;
                    self.next_id += 1;
                    let src = if rev { unsafe { end.sub(cl.size()) } } else { start };
                    fill(src, id, 0, cl.size());
                    let r2 = self.guarded(op, || Ok(unsafe { arena.commit(c, rev, cl, (start, end)) }));
                    if let Call::Ok(ptr) = r2 {
                        let snap = arena.snap();
                        self.check_new_block(arena, ptr, cl.size(), cl.size(), cl.align(), &snap, true);
                        if self.in_bounds(&snap, ptr, cl.size()) {
                            if self.on.c02 {
                                if let Some(i) = first_mismatch(ptr, id, 0, cl.size()) {
                                    self.viol("C02/commit-lost-contents", format!("allocate_prepared{}: byte +{i} of the committed block differs from what was written into the prepared range", if rev { "_rev" } else { "" }));
                                }
                            }
                            self.new_block(ptr, cl.size(), cl.size(), cl.align(), Some(id));
                        }
                        self.stats.probe(if rev { "prep.commit_rev" } else { "prep.commit" });
                    } else if let Call::Panicked(m) = r2 {
                        self.failed_call("allocate_prepared", Some(m), false);
                    }
                }
            }
            Call::Failed => self.failed_call("prepare_allocation", None, false),
            Call::Panicked(m) => self.failed_call("prepare_allocation", Some(m), false),
        }
        self.post(arena, &before, Effect::Grows, "prepare+commit", Some(l.size()), ok);
    }

    fn op_reserve(&mut self, arena: &mut dyn Arena, op: &Op) {
        let carriers = arena.carriers();
        let c = op.a[0] as usize % carriers.len();
        let n = self.decode_size(op.a[2], op.a[3]);
        let try_ = op.a[1] & 1 == 1 || !self.panicking_safe(n) || n > (1 << 20);
        let before = self.last.clone();
        let r = self.guarded(op, || arena.reserve(c, try_, n));
        let ok = matches!(r, Call::Ok(_));
        match r {
            Call::Ok(()) => {
                let snap = arena.snap();
                if self.on.c01 && snap.typed.remaining < n {
                    self.viol("C01/reserve-postcondition", format!("after reserve({n}) remaining() is {}", snap.typed.remaining));
                }
                self.stats.bump("reserve.ok");
            }
            Call::Failed => self.failed_call("try_reserve", None, false),
            Call::Panicked(m) => {
                if try_ {
                    self.failed_call("try_reserve", Some(m), false)
                } else if !m.contains("capacity overflow") {
                    self.viol(&format!("{}/panicking-method-unexpected-panic", self.trace.prop), format!("reserve({n}) panicked: {m}"));
                }
            }
        }
        self.post(arena, &before, Effect::Grows, "reserve", if carriers[c].is_dyn { None } else { Some(0) }, ok);
    }

    fn op_checkpoint(&mut self, arena: &mut dyn Arena, op: &Op) {
        let c = op.a[0] as usize % arena.carriers().len();
        if self.top().cps.len() >= 8 {
            return;
        }
        let cp = arena.checkpoint(c);
        let mark = self.mark(&self.last.clone());
        let seq = self.seq;
        self.top().cps.push(Cp { cp, seq, mark });
    }

    fn op_reset_to(&mut self, arena: &mut dyn Arena, op: &Op) {
        let c = op.a[0] as usize % arena.carriers().len();
        let n = self.top().cps.len();
        if n == 0 {
            return;
        }
        let k = op.a[1] as usize % n;
        let cp = self.top().cps[k].clone();
        let before = self.last.clone();
        unsafe { arena.reset_to(c, cp.cp) };
        let f = self.top();
        f.cps.truncate(k + 1);
        f.blocks.retain(|b| b.seq <= cp.seq);
        let snap = arena.snap();
        self.check_scope_restore(&cp.mark, &snap, "reset_to");
        self.stats.probe("reset_to");
        if snap.typed.cur != before.typed.cur {
            self.stats.probe("reset_to.across_chunks");
        }
        self.last = snap;
        self.check_stats(arena, true);
        self.check_patterns(None);
    }

    /// C13: allocate L; deallocate it; allocate L again -> same address.
    fn op_triple(&mut self, arena: &mut dyn Arena, op: &Op) {
        let carriers = arena.carriers();
        let info = arena.info();
        let c = op.a[0] as usize % carriers.len();
        let size = self.decode_size(op.a[1] % 4, op.a[2]);
        let Some(l) = Self::layout(size, op.a[3] % 13) else { return };
        let before = self.last.clone();
        let r1 = self.guarded(op, || arena.alloc(c, false, l));
        if let Call::Ok((p1, len1)) = r1 {
            let s1 = arena.snap();
            self.check_new_block(arena, p1, len1, l.size(), l.align(), &s1, true);
            unsafe { arena.dealloc(c, p1, l) };
            let s2 = arena.snap();
            let frozen = !info.deallocates || carriers[c].no_dealloc;
            if self.on.c13 && frozen && s2.typed.allocated != s1.typed.allocated {
                self.viol("C13/optout-ignored", format!("deallocate changed allocated() from {} to {} although deallocation is switched off", s1.typed.allocated, s2.typed.allocated));
            }
            let r2 = self.guarded(op, || arena.alloc(c, false, l));
            if let Call::Ok((p2, len2)) = r2 {
                let s3 = arena.snap();
                self.check_new_block(arena, p2, len2, l.size(), l.align(), &s3, true);
                if self.on.c13 && !frozen && size % info.min_align == 0 && p1 != p2 {
                    self.viol(
                        "C13/not-reclaimed",
                        format!("allocate({size}, align {}), deallocate, allocate again: {:#x} then {:#x}", l.align(), heap_off(p1 as usize), heap_off(p2 as usize)),
                    );
                }
                if p1 == p2 {
                    self.stats.probe("triple.same_address");
                }
                if self.in_bounds(&s3, p2, len2) {
                    let id = self.new_block(p2, len2, l.size(), l.align(), None);
                    fill(p2, id, 0, len2);
                }
            }
        }
        self.post(arena, &before, Effect::Grows, "allocate/deallocate/allocate", None, true);
    }

    /// C13: allocate, then grow the (most recent) allocation.
    fn op_growtip(&mut self, arena: &mut dyn Arena, op: &Op) {
        let carriers = arena.carriers();
        let info = arena.info();
        let c = op.a[0] as usize % carriers.len();
        let size = op.a[1] as usize % 512;
        let Some(l) = Self::layout(size, op.a[2] % 7) else { return };
        let before = self.last.clone();
        if let Call::Ok((p1, len1)) = self.guarded(op, || arena.alloc(c, false, l)) {
            let s1 = arena.snap();
            self.check_new_block(arena, p1, len1, l.size(), l.align(), &s1, true);
            if !self.in_bounds(&s1, p1, len1) {
                return;
            }
            let id = self.next_id;
            self.next_id += 1;
            fill(p1, id, 0, len1);
            let room = s1.cur().map_or(0, |ch| ch.content_end.saturating_sub(p1 as usize));
            let new_size = size + self.decode_size(op.a[3] % 3, op.a[4]) % 4096;
            let nl = Layout::from_size_align(new_size, l.align()).unwrap();
            match self.guarded(op, || unsafe { arena.grow(c, false, p1, l, nl) }) {
                Call::Ok((p2, len2)) => {
                    let s2 = arena.snap();
                    self.check_new_block(arena, p2, len2, nl.size(), nl.align(), &s2, true);
                    if self.on.c13 && info.up && new_size <= room && size % info.min_align == 0 && !carriers[c].is_dyn_claimed() && p2 != p1 {
                        self.viol("C13/grow-moved", format!("growing the most recent allocation from {size} to {new_size} bytes with {room} bytes of room returned a different address"));
                    }
                    if self.in_bounds(&s2, p2, len2) {
                        if self.on.c02 {
                            if let Some(i) = first_mismatch(p2, id, 0, size.min(len2)) {
                                self.viol("C02/realloc-prefix", format!("grow: byte +{i} of the old contents was not preserved"));
                            }
                        }
                        self.new_block(p2, len2, nl.size(), nl.align(), Some(id));
                        fill(p2, id, 0, len2);
                    }
                    if p1 == p2 {
                        self.stats.probe("growtip.in_place");
                    }
                }
                _ => {
                    self.new_block(p1, len1, l.size(), l.align(), Some(id));
                }
            }
        }
        self.post(arena, &before, Effect::Grows, "allocate+grow", None, true);
    }

    fn op_typed(&mut self, arena: &mut dyn Arena, op: &Op) {
        let carriers = arena.carriers();
        let c = op.a[0] as usize % carriers.len();
        let len = op.a[3] as usize % 200;
        let mut req = TypedReq { method: op.a[1] as u8, ty: op.a[2] as u8, len, try_: op.a[4] & 1 == 1, panic_at: op.panic_at, seed: op.a[5] as u8 };
        if req.method % 22 >= 20 && (len / 2) % 4 == 3 && (self.trace.param_or("loop_rounds", 0) > 0 || self.frames.iter().any(|f| f.isolated)) {
            // the closure of alloc_try_with would size its own allocation from the remaining capacity: a workload
            // that is replayed or looped must not depend on the state it runs in (same rule as decode_size)
            req.len -= 2;
        }
        if !req.try_ && !self.panicking_safe(len * 16 + 4096) {
            req.try_ = true;
        }
        let before = self.last.clone();
        self.stats.bump(&format!("typed.method{:02}", req.method % 22));
        heap::with(0, |h| h.begin_op(self.cur_op as u32 + 1, if op.fail_nth != 0 { Some(op.fail_nth) } else { None }, op.burst));
        let r = catch_unwind(AssertUnwindSafe(|| arena.typed(c, &req)));
        heap::with(0, |h| h.end_op());
        let mut ok = false;
        let mut extras: Vec<Extra> = Vec::new();
        let mut eff = Effect::Grows;
        match r {
            Ok(TypedRes::Block { ptr, len, align, expect, extra }) => {
                ok = true;
                extras = extra;
                let snap = arena.snap();
                self.check_new_block(arena, ptr, len, expect.len(), align, &snap, false);
                if len > 0 && self.in_bounds(&snap, ptr, len) {
                    if self.on.c02 || self.on.c01 {
                        let got = unsafe { std::slice::from_raw_parts(ptr, len.min(expect.len())) };
                        if got != &expect[..got.len()] {
                            let class = if self.on.c02 { "C02/typed-contents" } else { "C01/typed-contents" };
                            self.viol(class, format!("typed allocation method {} type {}: contents differ from what was stored", req.method % 22, req.ty % 8));
                        }
                    }
                    let id = self.new_block(ptr, len, len, align, None);
                    fill(ptr, id, 0, len);
                }
                self.stats.bump("typed.ok");
            }
            Ok(TypedRes::WrongLen { got, want }) => {
                if self.on.c01 || self.on.c02 {
                    self.viol(if self.on.c01 { "C01/typed-length" } else { "C02/typed-length" }, format!("typed slice allocation (method {}) handed out {got} elements for {want}", req.method % 22));
                }
            }
            Ok(TypedRes::Nothing { bytes, inert_dealloc }) => {
                ok = true;
                eff = Effect::Rewinds;
                let info = arena.info();
                if (inert_dealloc || !info.deallocates) && self.on.c13 {
                    // opt-out honoured: the box that was handed back stays allocated
                    let snap = arena.snap();
                    if snap.typed.allocated < before.typed.allocated + bytes {
                        self.viol("C13/optout-dealloc-reclaimed", format!("typed dealloc of a {bytes}-byte box {} changed allocated() from {} to {} (it must stay allocated)", if inert_dealloc { "through WithoutDealloc" } else { "with DEALLOCATES = false" }, before.typed.allocated, snap.typed.allocated));
                    }
                    eff = Effect::Grows;
                }
            }
            Ok(TypedRes::Failed) => self.failed_call("typed try_ allocation", None, false),
            Ok(TypedRes::ClosureErr { extra }) => {
                let snap = arena.snap();
                self.stats.probe("typed.closure_err");
                if extra.is_empty() {
                    // the closure left no allocations of its own: the arena must be exactly where it was
                    if self.on.c03 {
                        let m = self.mark(&before);
                        self.check_scope_restore(&m, &snap, "alloc_try_with Err");
                    }
                } else {
                    self.stats.probe("typed.closure_err_with_inner_allocation");
                }
                extras = extra;
            }
            Ok(TypedRes::Unsupported) => return,
            Err(p) => match classify_panic(p) {
                Caught::Injected(_) => self.stats.probe("typed.injected_unwind"),
                Caught::Harness(m) => harness_bug(m),
                Caught::Library(m) => {
                    if req.try_ {
                        self.failed_call("typed try_ allocation", Some(m), false)
                    } else if !m.contains("capacity overflow") {
                        self.viol(&format!("{}/panicking-method-unexpected-panic", self.trace.prop), format!("typed allocation panicked: {m}"));
                    }
                }
            },
        }
        // allocations the closure of alloc_try_with made are live blocks of their own
        if !extras.is_empty() {
            let snap = arena.snap();
            for (ptr, len, align, tag) in extras {
                self.check_new_block(arena, ptr, len, len, align, &snap, true);
                if self.in_bounds(&snap, ptr, len) {
                    if self.on.c02 {
                        if let Some(i) = (0..len).find(|&i| unsafe { ptr.add(i).read() } != tag) {
                            self.viol("C02/live-block-changed", format!("a block allocated inside the closure of alloc_try_with was overwritten at +{i}"));
                        }
                    }
                    let id = self.new_block(ptr, len, len, align, None);
                    fill(ptr, id, 0, len);
                }
            }
        }
        self.post(arena, &before, eff, "typed allocation", None, ok);
    }

    // ---------------------------------------------------------------- the claimed original handle (C14)

    fn op_orig(&mut self, arena: &mut dyn Arena, o: &mut dyn Arena, op: &Op) {
        let carriers = o.carriers();
        let c = op.a[0] as usize % carriers.len();
        let before = self.last.clone();
        self.stats.probe("c14.op_on_claimed_handle");
        match op.kind {
            K_O_ALLOC => {
                let size = op.a[1] as usize % 4096;
                let Some(l) = Self::layout(size, op.a[2] % 8) else { return };
                let r = self.guarded(op, || o.alloc(c, op.a[3] & 1 == 1, l));
                match r {
                    Call::Ok((p, len)) => {
                        if size > 0 && self.on.c14 {
                            self.viol("C14/claimed-allocated", format!("allocate({size}) through a claimed handle succeeded ({:#x}, {len})", heap_off(p as usize)));
                        }
                    }
                    Call::Failed => {}
                    Call::Panicked(m) => {
                        if self.on.c14 {
                            self.viol("C14/claimed-allocate-unwound", format!("allocate through a claimed handle panicked: {m}"));
                        }
                    }
                }
            }
            K_O_GROW => {
                let Some((fi, bi)) = self.pick_block(op.a[1]) else { return };
                let b = self.frames[fi].blocks[bi].clone();
                let old = Layout::from_size_align(b.req, b.align).unwrap();
                let new = Layout::from_size_align(b.req + 1 + op.a[2] as usize % 256, b.align).unwrap();
                match self.guarded(op, || unsafe { o.grow(c, false, b.ptr, old, new) }) {
                    Call::Ok(_) => {
                        if self.on.c14 {
                            self.viol("C14/claimed-allocated", "grow through a claimed handle succeeded".into());
                        }
                    }
                    Call::Failed => {}
                    Call::Panicked(m) => {
                        if self.on.c14 {
                            self.viol("C14/claimed-allocate-unwound", format!("grow through a claimed handle panicked: {m}"));
                        }
                    }
                }
            }
            K_O_DEALLOC => {
                let Some((fi, bi)) = self.pick_block(op.a[1]) else { return };
                let b = self.take_block(fi, bi);
                let l = Layout::from_size_align(b.req, b.align).unwrap();
                unsafe { o.dealloc(c, b.ptr, l) };
            }
            K_O_SHRINK => {
                let Some((fi, bi)) = self.pick_block(op.a[1]) else { return };
                let b = self.frames[fi].blocks[bi].clone();
                let old = Layout::from_size_align(b.req, b.align).unwrap();
                let new_size = b.req * (op.a[2] as usize % 1001) / 1000;
                let new = Layout::from_size_align(new_size, b.align).unwrap();
                if let Call::Ok((p, len)) = self.guarded(op, || unsafe { o.shrink(c, b.ptr, old, new) }) {
                    self.take_block(fi, bi);
                    if self.on.c14 && p != b.ptr {
                        self.viol("C14/claimed-shrink-moved", "shrink through a claimed handle moved the block".into());
                    }
                    self.new_block(p, len.min(b.len), new_size, b.align, Some(b.id));
                }
            }
            K_O_RESERVE => {
                // reserve(0) is a request like any other: "every request ... reserve ... fails" (the crate's own
                // tests/claim.rs also expects zero-length requests to fail on a claimed allocator)
                let n = if op.a[2] % 8 == 0 { 0 } else { 1 + op.a[2] as usize % 10_000 };
                // (through a trait object the panicking form used to report a claimed arena with
                // handle_alloc_error, i.e. a process abort: defect F3, repaired)
                let try_ = op.a[1] & 1 == 1;
                match self.guarded(op, || o.reserve(c, try_, n)) {
                    Call::Ok(()) => {
                        if self.on.c14 {
                            self.viol("C14/claimed-allocated", format!("reserve({n}) through a claimed handle succeeded"));
                        }
                    }
                    Call::Failed => {}
                    Call::Panicked(m) => {
                        if try_ && self.on.c14 {
                            self.viol("C14/claimed-allocate-unwound", format!("try_reserve through a claimed handle panicked: {m}"));
                        }
                        if !try_ {
                            self.stats.probe("c14.panicking_method_unwound");
                        }
                    }
                }
            }
            K_O_MISC if op.a[5] % 3 == 2 => {
                // a typed request (value, slice, str, iterator, ...) through the claimed handle, also as a trait
                // object: Err from the try_ form, the unwinding "claimed" panic from the panicking form; an abort is
                // attributed to this run by the driver
                let len = op.a[3] as usize % 40;
                let req = TypedReq { method: op.a[1] as u8, ty: op.a[2] as u8, len, try_: op.a[4] & 1 == 1, panic_at: 0, seed: op.a[5] as u8 };
                let zero_sized = req.ty % 5 == 4 && c % 3 == 0;
                let r = catch_unwind(AssertUnwindSafe(|| o.typed(c, &req)));
                match r {
                    Ok(TypedRes::Unsupported) | Ok(TypedRes::Failed) | Ok(TypedRes::WrongLen { .. }) => {}
                    Ok(_) => {
                        // values of zero-sized types never touch the allocator; an empty slice is not a request for memory
                        if self.on.c14 && !zero_sized && len > 0 {
                            self.viol("C14/claimed-allocated", format!("typed request (method {}, type {}, {len} elements) through a claimed handle succeeded", req.method % 17, req.ty % 5));
                        }
                    }
                    Err(p) => match classify_panic(p) {
                        Caught::Harness(m) => harness_bug(m),
                        Caught::Injected(_) => {}
                        Caught::Library(m) => {
                            if self.on.c14 && (req.try_ || !m.contains("claimed")) {
                                self.viol("C14/claimed-allocate-unwound", format!("typed request through a claimed handle ({}) panicked: {m}", if req.try_ { "try_ form" } else { "panicking form" }));
                            }
                            self.stats.probe("c14.typed_request_unwound_claimed");
                        }
                    },
                }
                self.stats.probe("c14.typed_request_on_claimed_handle");
            }
            _ => {
                self.check_orig_inert(o);
                let r = catch_unwind(AssertUnwindSafe(|| o.claim_again()));
                match r {
                    Ok(()) => {
                        if self.on.c14 {
                            self.viol("C14/second-claim-succeeded", "claim() on an already claimed handle returned".into());
                        }
                    }
                    Err(p) => {
                        if let Caught::Harness(m) = classify_panic(p) {
                            harness_bug(m)
                        }
                        self.stats.probe("c14.second_claim_unwound");
                    }
                }
            }
        }
        // nothing done through the claimed handle may change the arena the guard sees
        let snap = arena.snap();
        if self.on.c14 && snap.typed != before.typed {
            self.viol("C14/claimed-handle-not-inert", format!("an operation ({}) on the claimed handle changed the arena", OP_NAMES[op.kind as usize]));
        }
        self.check_orig_inert(o);
        self.last = snap;
        self.check_stats(arena, true);
        self.check_patterns(None);
    }
}

trait DynClaimed {
    fn is_dyn_claimed(&self) -> bool;
}

impl DynClaimed for CarrierInfo {
    fn is_dyn_claimed(&self) -> bool {
        false
    }
}
