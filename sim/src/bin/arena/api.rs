//! The narrow, object-safe interface between the non-generic interpreter (model.rs) and the
//! generic glue that drives real `Bump<A, S>` / `BumpScope<A, S>` values (glue.rs).

use std::alloc::Layout;

use bump_scope::Checkpoint;

pub type Blk = (*mut u8, usize);

#[derive(Clone, Copy, Debug, Default, PartialEq, Eq)]
pub struct ChunkSnap {
    pub chunk_start: usize,
    pub chunk_end: usize,
    pub content_start: usize,
    pub content_end: usize,
    pub pos: usize,
    pub size: usize,
    pub capacity: usize,
    pub allocated: usize,
    pub remaining: usize,
}

#[derive(Clone, Debug, Default, PartialEq, Eq)]
pub struct StatsSnap {
    /// small_to_big()
    pub chunks: Vec<ChunkSnap>,
    /// chunk_start of every chunk in big_to_small() order
    pub b2s: Vec<usize>,
    /// the chunk list walked from the current chunk: (iter_prev + self + iter_next, prev()/next() links)
    pub walk: Option<(Vec<usize>, Vec<usize>)>,
    /// index of the current chunk in `chunks`
    pub cur: Option<usize>,
    pub count: usize,
    pub size: usize,
    pub capacity: usize,
    pub allocated: usize,
    pub remaining: usize,
}

#[derive(Clone, Debug, Default)]
pub struct Snap {
    pub typed: StatsSnap,
    pub any: StatsSnap,
    pub claimed: bool,
}

impl Snap {
    pub fn cur(&self) -> Option<&ChunkSnap> {
        self.typed.cur.map(|i| &self.typed.chunks[i])
    }
}

#[derive(Clone, Copy, Debug)]
pub struct CarrierInfo {
    pub name: &'static str,
    pub no_dealloc: bool,
    pub no_shrink: bool,
    pub is_dyn: bool,
    pub needs_mut: bool,
}

#[derive(Clone, Copy, Debug)]
pub struct ArenaInfo {
    pub up: bool,
    pub min_align: usize,
    pub ga: bool,
    pub deallocates: bool,
    pub shrinks: bool,
    pub min_chunk: usize,
    pub root: bool,
}

/// Typed allocation request (executed by generic code for a concrete element type).
#[derive(Clone, Debug)]
pub struct TypedReq {
    pub method: u8,
    pub ty: u8,
    pub len: usize,
    pub try_: bool,
    /// panic at the j-th callback (0 = never)
    pub panic_at: u32,
    pub seed: u8,
}

/// An allocation made by the closure of `alloc_try_with`: (pointer, length, alignment, fill byte).
pub type Extra = (*mut u8, usize, usize, u8);

#[derive(Clone, Debug)]
pub enum TypedRes {
    /// Block handed out: pointer, byte length, alignment of the element type, expected bytes.
    Block { ptr: *mut u8, len: usize, align: usize, expect: Vec<u8>, extra: Vec<Extra> },
    /// try_ method returned Err(AllocError)
    Failed,
    /// the closure of alloc_try_with returned Err
    ClosureErr { extra: Vec<Extra> },
    /// the slice handed out has the wrong number of elements
    WrongLen { got: usize, want: usize },
    /// succeeded without handing out a block (allocate + dealloc)
    /// a box of `bytes` bytes was allocated and handed straight back with `dealloc`; `inert_dealloc`: through a
    /// `WithoutDealloc` wrapper, whose deallocate must do nothing
    Nothing { bytes: usize, inert_dealloc: bool },
    Unsupported,
}

pub trait Arena {
    fn info(&self) -> ArenaInfo;
    fn carriers(&self) -> &'static [CarrierInfo];
    fn snap(&self) -> Snap;
    fn alloc(&mut self, c: usize, zeroed: bool, l: Layout) -> Result<Blk, ()>;
    unsafe fn dealloc(&mut self, c: usize, ptr: *mut u8, l: Layout);
    unsafe fn grow(&mut self, c: usize, zeroed: bool, ptr: *mut u8, old: Layout, new: Layout) -> Result<Blk, ()>;
    unsafe fn shrink(&mut self, c: usize, ptr: *mut u8, old: Layout, new: Layout) -> Result<Blk, ()>;
    fn prepare(&mut self, c: usize, rev: bool, l: Layout) -> Result<(*mut u8, *mut u8), ()>;
    unsafe fn commit(&mut self, c: usize, rev: bool, l: Layout, range: (*mut u8, *mut u8)) -> *mut u8;
    /// `try_ == false` calls the panicking method (caller guarantees no refusal can happen or catches the unwind).
    fn reserve(&mut self, c: usize, try_: bool, n: usize) -> Result<(), ()>;
    fn checkpoint(&self, c: usize) -> Checkpoint;
    unsafe fn reset_to(&self, c: usize, cp: Checkpoint);
    fn is_claimed(&self, c: usize) -> bool;
    fn typed(&mut self, c: usize, req: &TypedReq) -> TypedRes;
    /// Calls `claim()` on an already claimed handle (must unwind). Only meaningful for the claimed original handle.
    fn claim_again(&self);
}
