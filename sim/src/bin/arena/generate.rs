//! Seeded generation of arena-world traces (swarm style: every run draws its own configuration,
//! allocator kind, grant policy, fault plan, workload mix and sizes from the run seed).

use sim::rng::Rng;
use sim::runner::Tier;
use sim::trace::{Op, Trace};

use crate::configs::N_FAMILIES;
use crate::model::*;

const SIZES: &[u64] = &[0, 0, 1, 1, 2, 3, 4, 5, 7, 8, 8, 9, 12, 15, 16, 16, 17, 24, 31, 32, 33, 48, 63, 64, 65, 96, 100, 127, 128, 129, 200, 255, 256, 300, 500, 512, 1000, 1024, 2000, 4000, 4096, 5000, 10_000];

fn size_args(r: &mut Rng, big: bool) -> (u64, u64) {
    match r.below(20) {
        0..=12 => (0, *r.pick(SIZES)),
        13 | 14 => (1, r.below(40)),
        15 | 16 => (2, r.below(40)),
        17 => (3, r.below(3)),
        18 => {
            if big {
                (0, r.below(200_000))
            } else {
                (0, *r.pick(SIZES))
            }
        }
        _ => {
            if big {
                (4 + r.below(2), r.below(5000))
            } else {
                (1, 0)
            }
        }
    }
}

fn align_arg(r: &mut Rng, big: bool) -> u64 {
    match r.below(16) {
        0..=8 => r.below(4),
        9..=12 => r.below(6),
        13 | 14 => r.below(13),
        _ => {
            if big {
                r.below(30)
            } else {
                r.below(13)
            }
        }
    }
}

pub fn generate(prop: &str, run_seed: u64, _index: u64, tier: Tier) -> Trace {
    let root = Rng::new(run_seed);
    let mut rc = root.fork(1); // configuration
    let mut rf = root.fork(2); // faults
    let mut rw = root.fork(3); // workload profile
    let mut r = root.fork(4); // operations

    let mut t = Trace { world: "arena".into(), prop: prop.into(), seed: run_seed, ..Default::default() };
    let family = rc.below(N_FAMILIES);
    let min_align = 1u64 << rc.below(5);
    t.set_param("family", family);
    t.set_param("min_align", min_align);
    t.set_param("akind", crate::configs::FAMILIES[family as usize].5 as u64);
    t.set_param("policy", rc.below(5));
    t.set_param("heap_seed", rc.next() >> 16);
    let init = rc.below(8);
    t.set_param("init", if init < 4 { 0 } else { init - 4 });
    t.set_param("init_size", *rc.pick(&[0u64, 1, 17, 64, 100, 500, 512, 1000, 4096, 5000, 20_000]));
    t.set_param("end", if prop == "C18" { rc.below(6) } else { *rc.pick(&[0u64, 1, 2, 0, 1, 2, 3, 4]) });

    // fault plan
    let faulty = match prop {
        "C07" => true,
        "C05" => rf.chance(1, 2),
        "C03" | "C13" | "C18" | "C14" => rf.chance(1, 6),
        _ => rf.chance(1, 3),
    };
    let mut op_fault_rate = 0;
    if faulty {
        match rf.below(6) {
            0 => t.set_param("fail_above", *rf.pick(&[100u64, 600, 2000, 5000])),
            1 => t.set_param("budget", *rf.pick(&[600u64, 2000, 8000, 40_000])),
            2 => {
                t.set_param("fail_above", *rf.pick(&[600u64, 5000]));
                op_fault_rate = 10;
            }
            _ => op_fault_rate = *rf.pick(&[4u64, 10, 25, 60]),
        }
    }

    // reset-loop shape (C03)
    let loop_shape = prop == "C03" && !faulty && rw.chance(1, 6);
    if loop_shape {
        t.set_param("loop_rounds", 12 + rw.below(20));
    }

    // workload profile (weights per op kind), swarm: knock out a random subset
    let mut w = vec![0u32; OP_NAMES.len()];
    let base: &[(u16, u32)] = &[
        (K_ALLOC, 24), (K_GROW, 10), (K_SHRINK, 8), (K_DEALLOC, 10), (K_PREP, 4), (K_RESERVE, 2), (K_CHECKPOINT, 2), (K_RESET_TO, 2),
        (K_SCOPED, 4), (K_GUARD, 2), (K_GUARD_RESET, 1), (K_ALIGNED, 2), (K_SCOPED_ALIGNED, 2), (K_CLAIM, 1), (K_END, 7), (K_UNWIND, 1),
        (K_TYPED, 6), (K_WITH_SETTINGS, 1), (K_TRIPLE, 2), (K_GROWTIP, 2), (K_RESET, 1), (K_RESET_TO_START, 1), (K_RAW_ROUNDTRIP, 1),
    ];
    for &(k, x) in base {
        w[k as usize] = x;
    }
    let boost = |w: &mut Vec<u32>, ks: &[u16], f: u32| {
        for &k in ks {
            w[k as usize] *= f;
        }
    };
    match prop {
        "C03" => boost(&mut w, &[K_SCOPED, K_GUARD, K_GUARD_RESET, K_CHECKPOINT, K_RESET_TO, K_UNWIND, K_SCOPED_ALIGNED], 3),
        "C12" => boost(&mut w, &[K_ALLOC, K_RESERVE, K_PREP, K_GROW], 2),
        "C13" => boost(&mut w, &[K_TRIPLE, K_GROWTIP, K_DEALLOC, K_SHRINK], 4),
        "C14" => boost(&mut w, &[K_CLAIM], 12),
        "C18" => boost(&mut w, &[K_ALIGNED, K_SCOPED_ALIGNED, K_WITH_SETTINGS], 6),
        "C05" => boost(&mut w, &[K_RESET, K_RESET_TO_START, K_RAW_ROUNDTRIP], 3),
        _ => {}
    }
    for k in 0..w.len() {
        if w[k] > 0 && k as u16 != K_ALLOC && k as u16 != K_END && rw.chance(1, 5) {
            w[k] = 0;
        }
    }
    if loop_shape {
        for k in [K_RESET, K_RESET_TO_START, K_RAW_ROUNDTRIP, K_UNWIND] {
            w[k as usize] = 0;
        }
    }
    let big = matches!(prop, "C12" | "C07") && rw.chance(1, 2) || rw.chance(1, 10);
    let max_ops = match tier {
        Tier::Quick => 60,
        Tier::Thorough => 120,
    };
    let n_ops = 4 + rw.below(max_ops - 3);

    // generation keeps a rough picture of the frame stack so that structural ops make sense
    let mut stack: Vec<u16> = Vec::new();
    let mut isolated_depth: Option<usize> = None;
    let mut just_ended_isolated = false;
    let mut ops: Vec<Op> = Vec::new();
    while (ops.len() as u64) < n_ops {
        if just_ended_isolated {
            just_ended_isolated = false;
            if !faulty && r.chance(2, 3) {
                ops.push(Op::new(K_RESCOPE, &[]));
                continue;
            }
        }
        let in_claim = stack.contains(&K_CLAIM);
        let mut k = r.weighted(&w) as u16;
        if in_claim && r.chance(1, 3) {
            k = *r.pick(&[K_O_ALLOC, K_O_ALLOC, K_O_GROW, K_O_DEALLOC, K_O_SHRINK, K_O_RESERVE, K_O_MISC]);
        }
        let carrier = if stack.is_empty() && r.chance(1, 4) { 1000 + r.below(9) } else { r.below(12) };
        let mut op = match k {
            K_ALLOC => {
                let (m, v) = size_args(&mut r, big);
                Op::new(k, &[carrier, m, v, align_arg(&mut r, big), r.below(4) / 3])
            }
            K_GROW => {
                let (m, v) = size_args(&mut r, big);
                let al = if r.chance(3, 4) { 64 } else { align_arg(&mut r, false) };
                Op::new(k, &[carrier, r.below(64), m, v, al, r.below(4)])
            }
            K_SHRINK => {
                let al = if r.chance(2, 3) { 64 } else { r.below(8) };
                Op::new(k, &[carrier, r.below(64), *r.pick(&[0u64, 1, 250, 500, 500, 750, 900, 999, 1000]), al, r.below(2)])
            }
            K_DEALLOC => Op::new(k, &[carrier, r.below(64), r.below(2)]),
            K_PREP => Op::new(k, &[carrier, r.below(2), r.below(64), r.below(6), r.below(64), r.below(4)]),
            K_RESERVE => {
                let (m, v) = size_args(&mut r, big);
                Op::new(k, &[carrier, r.below(2), m, v])
            }
            K_CHECKPOINT => Op::new(k, &[carrier]),
            K_RESET_TO => Op::new(k, &[carrier, r.below(8)]),
            K_SCOPED => {
                let iso = (prop == "C03" && r.chance(1, 2)) as u64;
                if iso == 1 && isolated_depth.is_none() {
                    isolated_depth = Some(stack.len());
                }
                stack.push(k);
                Op::new(k, &[iso])
            }
            K_GUARD | K_CLAIM => {
                stack.push(k);
                Op::new(k, &[])
            }
            K_ALIGNED | K_SCOPED_ALIGNED => {
                stack.push(k);
                Op::new(k, &[r.below(5)])
            }
            K_WITH_SETTINGS => {
                stack.push(k);
                Op::new(k, &[r.below(2)])
            }
            K_GUARD_RESET => Op::new(k, &[]),
            K_END => {
                if let Some(top) = stack.pop() {
                    if isolated_depth == Some(stack.len()) {
                        isolated_depth = None;
                        just_ended_isolated = top == K_SCOPED;
                    }
                }
                Op::new(k, &[])
            }
            K_UNWIND => {
                if stack.is_empty() {
                    continue;
                }
                let lv = 1 + r.below(stack.len() as u64);
                for _ in 0..lv {
                    stack.pop();
                }
                if isolated_depth.is_some_and(|d| d >= stack.len()) {
                    isolated_depth = None;
                }
                Op::new(k, &[lv])
            }
            K_TYPED => Op::new(k, &[r.below(12), r.below(22), r.below(8), *r.pick(&[0u64, 0, 1, 2, 3, 5, 6, 7, 8, 17, 40, 150]), r.below(2), r.below(256)]),
            K_TRIPLE => {
                let (m, v) = size_args(&mut r, false);
                Op::new(k, &[carrier, m, v, align_arg(&mut r, false)])
            }
            K_GROWTIP => Op::new(k, &[carrier, *r.pick(SIZES) % 512, r.below(5), r.below(3), r.below(300)]),
            K_RESET | K_RESET_TO_START | K_RAW_ROUNDTRIP => {
                if !stack.is_empty() {
                    continue;
                }
                Op::new(k, &[])
            }
            K_O_ALLOC => Op::new(k, &[r.below(6), *r.pick(SIZES) % 4096, r.below(6), r.below(2)]),
            K_O_GROW => Op::new(k, &[r.below(6), r.below(64), r.below(256)]),
            K_O_DEALLOC => Op::new(k, &[r.below(6), r.below(64)]),
            K_O_SHRINK => Op::new(k, &[r.below(6), r.below(64), r.below(1001)]),
            K_O_RESERVE => Op::new(k, &[r.below(6), r.below(2), r.below(10_000)]),
            K_O_MISC => Op::new(k, &[r.below(6), r.below(17), r.below(5), r.below(40), r.below(2), r.below(250)]),
            _ => continue,
        };
        if op_fault_rate > 0 && matches!(k, K_ALLOC | K_GROW | K_SHRINK | K_PREP | K_RESERVE | K_TYPED | K_TRIPLE | K_GROWTIP) && rf.below(100) < op_fault_rate {
            if rf.chance(3, 4) {
                op.fail_nth = 1 + rf.below(3) as u32;
            } else {
                op.burst = 1 + rf.below(2) as u32;
            }
        }
        if k == K_TYPED && rf.chance(1, 6) {
            op.panic_at = 1 + rf.below(6) as u32;
        }
        ops.push(op);
    }
    t.ops = ops;
    t
}
