//! Arena world: one real `Bump<A, S>` on a simulated heap, driven by a simulated caller.
//! Serves C01 C02 C03 C05 C07 C10 C12 C13 C14 C18 (see DESIGN.md section 5).

mod api;
mod configs;
mod exec;
mod finish;
mod generate;

mod model;
mod oracle;

use sim::heap::{self, Policy};
use sim::runner::{Stats, Tier, World, main_for};
use sim::trace::{Trace, Violation};

struct ArenaWorld;

impl World for ArenaWorld {
    const NAME: &'static str = "arena";

    fn op_names() -> &'static [&'static str] {
        model::OP_NAMES
    }

    fn props() -> &'static [&'static str] {
        &["C01", "C02", "C03", "C05", "C07", "C10", "C12", "C13", "C14", "C18", "ALL"]
    }

    fn generate(prop: &str, run_seed: u64, index: u64, tier: Tier) -> Trace {
        generate::generate(prop, run_seed, index, tier)
    }

    fn execute(trace: &Trace, stats: &mut Stats) -> Vec<Violation> {
        heap::with(0, |h| {
            h.reset(trace.param_or("heap_seed", 1), Policy::from_u64(trace.param_or("policy", 0)));
            let fa = trace.param_or("fail_above", 0);
            h.fail_above = if fa > 0 { Some(fa as usize) } else { None };
            let b = trace.param_or("budget", 0);
            h.budget = if b > 0 { Some(b as usize) } else { None };
        });
        let family = trace.param_or("family", 0);
        let min_align = trace.param_or("min_align", 1);
        stats.sig_mix(family * 8 + min_align.trailing_zeros() as u64);
        stats.sig_mix(trace.param_or("policy", 0) + 16 * trace.param_or("init", 0));
        stats.bump(&format!("config.family{family:02}"));
        stats.bump(&format!("akind.{}", heap::AKIND_NAMES[configs::FAMILIES[family as usize % configs::FAMILIES.len()].5]));
        let mut it = model::Interp::new(trace, stats);
        configs::dispatch(family, min_align, &mut it);
        it.viols
    }
}

fn main() {
    main_for::<ArenaWorld>();
}
