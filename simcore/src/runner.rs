//! Worker side of the batch protocol, shared by all world binaries.
//!
//! `<world> run   --prop C01 --seed S --start I --count N --tier quick --out F [--progress P]`
//! `<world> replay FILE [--all]`
//! `<world> gen   --prop C01 --seed S --index I [--tier quick]`
//!
//! Workers are separate processes: `handle_alloc_error`, rustc's non-unwinding `ub_checks` panics and
//! genuine SIGSEGVs kill the process instead of unwinding. A worker therefore appends
//! `BEGIN <run seed> <index>` to its progress file before every run, so that the driver can attribute a
//! dead worker to the run that killed it.

use std::any::Any;
use std::cell::RefCell;
use std::collections::BTreeMap;
use std::fmt::Write as _;
use std::io::Write as _;
use std::panic::{self, AssertUnwindSafe};

use crate::rng::mix;
use crate::trace::{Trace, Violation, json_str};

/// Payload of every panic the simulator injects on purpose (callback "crashes").
pub struct Injected(pub u32);

/// Payload of a panic raised by the harness itself when it detects its own inconsistency.
pub struct HarnessBug(pub String);

pub fn harness_bug(msg: String) -> ! {
    panic::resume_unwind(Box::new(HarnessBug(msg)))
}

pub fn inject_panic(n: u32) -> ! {
    panic::resume_unwind(Box::new(Injected(n)))
}

thread_local! {
    static LAST_PANIC: RefCell<Option<String>> = const { RefCell::new(None) };
}

pub fn install_panic_hook() {
    panic::set_hook(Box::new(|info| {
        let msg = if let Some(s) = info.payload().downcast_ref::<&str>() {
            (*s).to_string()
        } else if let Some(s) = info.payload().downcast_ref::<String>() {
            s.clone()
        } else {
            "<non-string panic payload>".to_string()
        };
        let loc = info.location().map(|l| format!(" at {}:{}", l.file(), l.line())).unwrap_or_default();
        if msg.contains("unsafe precondition") || msg.contains("cannot unwind") || msg.contains("during cleanup") {
            // about to abort: this is the only chance to say why (the driver classifies the dead worker by this text)
            let prev = LAST_PANIC.with(|p| p.borrow().clone()).unwrap_or_default();
            eprintln!("non-unwinding panic: {msg}{loc} (previous panic: {prev})");
        }
        LAST_PANIC.with(|p| *p.borrow_mut() = Some(format!("{msg}{loc}")));
    }));
}

pub fn take_last_panic() -> Option<String> {
    LAST_PANIC.with(|p| p.borrow_mut().take())
}

/// What a caught unwind was.
pub enum Caught {
    Injected(u32),
    Harness(String),
    Library(String),
}

pub fn classify_panic(payload: Box<dyn Any + Send>) -> Caught {
    match payload.downcast::<Injected>() {
        Ok(i) => Caught::Injected(i.0),
        Err(p) => match p.downcast::<HarnessBug>() {
            Ok(h) => Caught::Harness(h.0),
            Err(p) => {
                let msg = if let Some(s) = p.downcast_ref::<&str>() {
                    (*s).to_string()
                } else if let Some(s) = p.downcast_ref::<String>() {
                    s.clone()
                } else {
                    "<non-string panic payload>".to_string()
                };
                let with_loc = take_last_panic().unwrap_or(msg);
                Caught::Library(with_loc)
            }
        },
    }
}

#[derive(Clone, Copy, PartialEq, Eq, Debug)]
pub enum Tier {
    Quick,
    Thorough,
}

/// Per-batch statistics collected from the runs (reach measurement).
#[derive(Default)]
pub struct Stats {
    pub counters: BTreeMap<String, u64>,
    pub steps: u64,
    /// Hashes of trace signatures of runs that hit at least one non-trivial probe.
    pub sigs: Vec<u64>,
    /// Hashes of abstract states reached.
    pub states: Vec<u64>,
    /// Set by the world during a run.
    pub run_nontrivial: bool,
    pub run_sig: u64,
}

impl Stats {
    #[inline]
    pub fn bump(&mut self, name: &str) {
        self.add(name, 1);
    }

    pub fn add(&mut self, name: &str, n: u64) {
        if let Some(c) = self.counters.get_mut(name) {
            *c += n;
        } else {
            self.counters.insert(name.to_string(), n);
        }
    }

    /// Marks the run as non-trivial and counts the probe.
    pub fn probe(&mut self, name: &str) {
        self.run_nontrivial = true;
        self.bump(name);
    }

    pub fn sig_mix(&mut self, x: u64) {
        self.run_sig = mix(self.run_sig, x);
    }

    pub fn state(&mut self, h: u64) {
        self.states.push(h);
    }
}

pub trait World {
    const NAME: &'static str;
    fn op_names() -> &'static [&'static str];
    /// Properties this world has oracles for.
    fn props() -> &'static [&'static str];
    fn generate(prop: &str, run_seed: u64, index: u64, tier: Tier) -> Trace;
    /// Executes the trace with all oracles enabled that serve `trace.prop`; returns every violation found.
    fn execute(trace: &Trace, stats: &mut Stats) -> Vec<Violation>;
}

fn prop_hash(p: &str) -> u64 {
    p.bytes().fold(0xcbf2_9ce4_8422_2325u64, |h, b| (h ^ b as u64).wrapping_mul(0x100_0000_01b3))
}

pub fn run_seed(base: u64, world: &str, prop: &str, index: u64) -> u64 {
    mix(mix(mix(base, prop_hash(world)), prop_hash(prop)), index)
}

fn arg<'a>(args: &'a [String], name: &str) -> Option<&'a str> {
    args.iter().position(|a| a == name).and_then(|i| args.get(i + 1)).map(|s| s.as_str())
}

fn arg_u64(args: &[String], name: &str, default: u64) -> u64 {
    arg(args, name).map(|v| v.parse().unwrap_or_else(|_| die(&format!("bad value for {name}")))).unwrap_or(default)
}

fn die(msg: &str) -> ! {
    eprintln!("simworker: {msg}");
    std::process::exit(2)
}

/// Runs one trace under `catch_unwind`; an escaping harness panic is a harness error (exit 2 by the caller),
/// an escaping library panic is a violation of the running property.
pub fn execute_guarded<W: World>(trace: &Trace, stats: &mut Stats) -> Result<Vec<Violation>, String> {
    stats.run_nontrivial = false;
    stats.run_sig = 0;
    let r = panic::catch_unwind(AssertUnwindSafe(|| W::execute(trace, stats)));
    match r {
        Ok(v) => {
            if stats.run_nontrivial {
                let s = stats.run_sig;
                stats.sigs.push(s);
            }
            Ok(v)
        }
        Err(p) => match classify_panic(p) {
            Caught::Harness(m) => Err(m),
            Caught::Injected(n) => Err(format!("injected panic #{n} escaped the world")),
            Caught::Library(m) => Ok(vec![Violation {
                class: format!("{}/escaped-library-panic", trace.prop),
                op_index: usize::MAX,
                msg: format!("a panic escaped the run: {m}"),
            }]),
        },
    }
}

// ---------------------------------------------------------------------------------------------- early violations
//
// A violation is normally reported when its run ends. A run that goes on after a violation works on a state the
// library already corrupted and may kill the process (debug assertion in a non-unwinding context, SIGSEGV); the
// specific violation would then be lost behind the generic `abort:` class. Worlds therefore announce every
// violation the moment it is recorded: in `run` mode it goes to the progress file, in `replay` mode to stdout.

enum EarlySink {
    None,
    Progress(std::fs::File),
    Stdout(String),
}

thread_local! {
    static EARLY: std::cell::RefCell<(EarlySink, String)> = const { std::cell::RefCell::new((EarlySink::None, String::new())) };
}

fn one_line(s: &str) -> String {
    s.chars().map(|c| if c == '\n' || c == '\r' || c == '\t' { ' ' } else { c }).take(400).collect()
}

/// Called by the worlds whenever they record a violation.
pub fn early_violation(class: &str, op_index: usize, msg: &str) {
    EARLY.with(|e| {
        let mut e = e.borrow_mut();
        let prop = e.1.clone();
        let mine = prop == "ALL" || class.split('/').next() == Some(prop.as_str());
        if !mine {
            return;
        }
        match &mut e.0 {
            EarlySink::None => {}
            EarlySink::Progress(f) => {
                let _ = writeln!(f, "EARLY {class}\t{}\t{}", op_index as i64, one_line(msg));
                let _ = f.flush();
            }
            EarlySink::Stdout(file) => {
                use std::io::Write as _;
                let out = std::io::stdout();
                let mut out = out.lock();
                let _ = writeln!(out, "VIOLATION property={prop} class={class} replay={file} op={} msg={}", op_index as i64, one_line(msg));
                let _ = out.flush();
            }
        }
    });
}

pub fn main_for<W: World>() {
    install_panic_hook();
    let args: Vec<String> = std::env::args().collect();
    let cmd = args.get(1).map(|s| s.as_str()).unwrap_or("");
    let tier = match arg(&args, "--tier") {
        Some("thorough") => Tier::Thorough,
        _ => Tier::Quick,
    };
    match cmd {
        "run" => {
            let prop = arg(&args, "--prop").unwrap_or_else(|| die("--prop required")).to_string();
            if !W::props().contains(&prop.as_str()) {
                die(&format!("world {} has no oracle for {prop}", W::NAME));
            }
            let base = arg_u64(&args, "--seed", 1);
            let start = arg_u64(&args, "--start", 0);
            let count = arg_u64(&args, "--count", 1);
            let out = arg(&args, "--out").unwrap_or_else(|| die("--out required")).to_string();
            let max_viol = arg_u64(&args, "--max-violations", 5) as usize;
            let mut progress = arg(&args, "--progress").map(|p| {
                std::fs::OpenOptions::new().create(true).append(true).open(p).unwrap_or_else(|_| die("cannot open progress file"))
            });
            if let Some(p) = progress.as_ref() {
                if let Ok(c) = p.try_clone() {
                    EARLY.with(|e| *e.borrow_mut() = (EarlySink::Progress(c), prop.clone()));
                }
            }
            let mut stats = Stats::default();
            let mut viols: Vec<(u64, u64, Violation, String)> = Vec::new();
            let mut samples: Vec<String> = Vec::new();
            let mut runs = 0u64;
            let t0 = std::time::Instant::now();
            for index in start..start + count {
                let rs = run_seed(base, W::NAME, &prop, index);
                if let Some(p) = progress.as_mut() {
                    let _ = writeln!(p, "BEGIN {rs} {index}");
                    let _ = p.flush();
                }
                let trace = W::generate(&prop, rs, index, tier);
                if samples.len() < 3 && index % 97 == start % 97 {
                    samples.push(trace.to_text(W::op_names()));
                }
                match execute_guarded::<W>(&trace, &mut stats) {
                    Ok(vs) => {
                        runs += 1;
                        for v in vs {
                            if (v.prop() == prop || prop == "ALL") && viols.len() < max_viol {
                                let mut t = trace.clone();
                                t.expect = Some(v.class.clone());
                                viols.push((rs, index, v, t.to_text(W::op_names())));
                            }
                        }
                    }
                    Err(m) => {
                        eprintln!("HARNESS-ERROR world={} prop={prop} run_seed={rs} index={index}: {m}", W::NAME);
                        std::process::exit(2);
                    }
                }
                if let Some(p) = progress.as_mut() {
                    let _ = writeln!(p, "END {rs}");
                }
            }
            let wall = t0.elapsed().as_secs_f64();
            // summary JSON
            let mut s = String::new();
            s.push('{');
            write!(s, "\"world\":{},\"prop\":{},\"runs\":{runs},\"steps\":{},\"wall_s\":{wall:.3},", json_str(W::NAME), json_str(&prop), stats.steps).unwrap();
            s.push_str("\"counters\":{");
            for (i, (k, v)) in stats.counters.iter().enumerate() {
                if i > 0 {
                    s.push(',');
                }
                write!(s, "{}:{v}", json_str(k)).unwrap();
            }
            s.push_str("},\"sigs\":[");
            for (i, h) in stats.sigs.iter().enumerate() {
                if i > 0 {
                    s.push(',');
                }
                write!(s, "\"{h:016x}\"").unwrap();
            }
            s.push_str("],\"states\":[");
            stats.states.sort_unstable();
            stats.states.dedup();
            for (i, h) in stats.states.iter().enumerate() {
                if i > 0 {
                    s.push(',');
                }
                write!(s, "\"{h:016x}\"").unwrap();
            }
            s.push_str("],\"samples\":[");
            for (i, t) in samples.iter().enumerate() {
                if i > 0 {
                    s.push(',');
                }
                s.push_str(&json_str(t));
            }
            s.push_str("],\"violations\":[");
            for (i, (rs, index, v, text)) in viols.iter().enumerate() {
                if i > 0 {
                    s.push(',');
                }
                write!(
                    s,
                    "{{\"run_seed\":{rs},\"index\":{index},\"class\":{},\"op\":{},\"msg\":{},\"trace\":{}}}",
                    json_str(&v.class),
                    if v.op_index == usize::MAX { -1i64 } else { v.op_index as i64 },
                    json_str(&v.msg),
                    json_str(text)
                )
                .unwrap();
            }
            s.push_str("]}");
            std::fs::write(&out, s).unwrap_or_else(|_| die("cannot write --out file"));
        }
        "replay" => {
            let file = args.get(2).unwrap_or_else(|| die("replay FILE"));
            let all = args.iter().any(|a| a == "--all");
            let quiet = args.iter().any(|a| a == "--quiet");
            let text = std::fs::read_to_string(file).unwrap_or_else(|_| die("cannot read replay file"));
            let trace = Trace::parse(&text, W::op_names()).unwrap_or_else(|e| die(&format!("bad replay file: {e}")));
            if trace.world != W::NAME {
                die(&format!("replay file is for world {}, this is {}", trace.world, W::NAME));
            }
            let mut stats = Stats::default();
            EARLY.with(|e| *e.borrow_mut() = (EarlySink::Stdout(file.to_string()), if all { "ALL".to_string() } else { trace.prop.clone() }));
            match execute_guarded::<W>(&trace, &mut stats) {
                Ok(vs) => {
                    EARLY.with(|e| *e.borrow_mut() = (EarlySink::None, String::new()));
                    let mut any = false;
                    for v in &vs {
                        if all || v.prop() == trace.prop {
                            any = true;
                            println!("VIOLATION property={} class={} replay={} op={} msg={}", v.prop(), v.class, file, v.op_index as i64, v.msg);
                        }
                    }
                    if !any {
                        println!("NO-VIOLATION");
                    }
                    if !quiet {
                        for (k, v) in &stats.counters {
                            eprintln!("  {k}={v}");
                        }
                    }
                    std::process::exit(if any { 1 } else { 0 });
                }
                Err(m) => {
                    eprintln!("HARNESS-ERROR replay {file}: {m}");
                    std::process::exit(2);
                }
            }
        }
        "gen" => {
            let prop = arg(&args, "--prop").unwrap_or_else(|| die("--prop required")).to_string();
            let base = arg_u64(&args, "--seed", 1);
            let index = arg_u64(&args, "--index", 0);
            let rs = run_seed(base, W::NAME, &prop, index);
            let trace = W::generate(&prop, rs, index, tier);
            print!("{}", trace.to_text(W::op_names()));
        }
        _ => die("usage: <world> run|replay|gen ..."),
    }
}
