//! Byte patterns written into live blocks (hot loops, compiled with optimisation).

#[inline]
pub fn pat(id: u32, i: usize) -> u8 {
    ((id as usize).wrapping_mul(167).wrapping_add(i.wrapping_mul(13)) % 251) as u8 + 1
}

pub fn fill(ptr: *mut u8, id: u32, from: usize, to: usize) {
    for i in from..to {
        unsafe { ptr.add(i).write(pat(id, i)) };
    }
}

pub fn first_mismatch(ptr: *const u8, id: u32, from: usize, to: usize) -> Option<usize> {
    (from..to).find(|&i| unsafe { ptr.add(i).read() } != pat(id, i))
}

pub fn first_nonzero(ptr: *const u8, from: usize, to: usize) -> Option<usize> {
    (from..to).find(|&i| unsafe { ptr.add(i).read() } != 0)
}

/// First index at which two equally long byte slices differ, starting at `from`.
pub fn first_diff(a: &[u8], b: &[u8], from: usize) -> Option<usize> {
    (from..a.len().min(b.len())).find(|&i| a[i] != b[i])
}
