//! SimHeap: the simulated base allocator behind the `A: Allocator` seam of `Bump<A, S>`.
//!
//! Everything the arena can observe about its environment is decided here from the run's
//! PRNG: where a chunk lands (only as aligned as requested), how much more than requested it
//! gets, whether the request is refused. Every call is recorded in a ledger that the C05 / C12
//! oracles check afterwards. Released memory is poisoned and never re-granted within a run.

use std::alloc::Layout;
use std::cell::UnsafeCell;
use std::collections::BTreeMap;
use std::ptr::NonNull;

use bump_scope::alloc::{AllocError, Allocator};

use crate::rng::Rng;

pub const REGION_SIZE: usize = 64 << 20;
// as aligned as it is large: every alignment decision inside the region is then the same in every process
// (requests with a larger alignment cannot be satisfied inside the region at all)
pub const REGION_ALIGN: usize = REGION_SIZE;
pub const RED: usize = 64;
/// Anything larger is refused (and logged): this is how giant layouts are observed without memory.
pub const HUGE: usize = 8 << 20;

pub const FRESH: u8 = 0xA5;
pub const POISON: u8 = 0xDD;
pub const CANARY: u8 = 0xCA;

#[derive(Clone, Copy, PartialEq, Eq, Debug)]
pub enum Policy {
    Exact = 0,
    PlusOdd = 1,
    Pow2 = 2,
    Page = 3,
    Times3 = 4,
}

impl Policy {
    pub const COUNT: u64 = 5;
    pub fn from_u64(x: u64) -> Policy {
        match x % Self::COUNT {
            0 => Policy::Exact,
            1 => Policy::PlusOdd,
            2 => Policy::Pow2,
            3 => Policy::Page,
            _ => Policy::Times3,
        }
    }
}

#[derive(Clone, Copy, Debug, PartialEq, Eq)]
pub struct Release {
    pub seq: u64,
    pub size: usize,
    pub align: usize,
    pub op: u32,
}

#[derive(Clone, Debug)]
pub struct Grant {
    pub seq: u64,
    pub op: u32,
    pub off: usize,
    pub req_size: usize,
    pub req_align: usize,
    pub granted: usize,
    pub released: Option<Release>,
}

/// A refused request, kept so that oracles can look at the layouts the arena asked for.
#[derive(Clone, Debug)]
pub struct Refusal {
    pub seq: u64,
    pub op: u32,
    pub size: usize,
    pub align: usize,
    pub kind: usize,
}

pub const F_NTH: usize = 0;
pub const F_BURST: usize = 1;
pub const F_ABOVE: usize = 2;
pub const F_BUDGET: usize = 3;
pub const F_HUGE: usize = 4;
pub const F_REGION: usize = 5;
pub const F_MOD: usize = 6;
pub const FAULT_NAMES: [&str; 7] = ["fail_nth", "fail_burst", "fail_above", "budget", "always_fail_huge", "region_full", "fail_every_kth"];

pub struct Heap {
    base: *mut u8,
    cursor: usize,
    pub grants: Vec<Grant>,
    pub refusals: Vec<Refusal>,
    live: BTreeMap<usize, usize>,
    rng: Rng,
    pub policy: Policy,
    pub fail_above: Option<usize>,
    pub budget: Option<usize>,
    pub op_fail_nth: Option<u32>,
    pub burst_left: u32,
    /// `allocate` calls seen during the current operation.
    pub op_calls: u32,
    pub cur_op: u32,
    pub used: usize,
    pub seq: u64,
    pub n_alloc: u64,
    pub n_dealloc: u64,
    pub n_refused: u64,
    pub fired: [u64; 7],
    /// every k-th allocate call is refused (used where faults cannot be attached to operations: the pool world)
    pub fail_mod: Option<u64>,
    /// Ledger violations detected at call time: (class, message).
    pub errors: Vec<(&'static str, String)>,
    pub handles_created: u64,
    pub handles_dropped: u64,
    pub handle_magic_bad: u64,
}

impl Heap {
    fn new() -> Heap {
        let layout = Layout::from_size_align(REGION_SIZE, REGION_ALIGN).unwrap();
        let base = unsafe { std::alloc::alloc(layout) };
        assert!(!base.is_null(), "cannot reserve the simulated heap region");
        Heap {
            base,
            cursor: 0,
            grants: Vec::new(),
            refusals: Vec::new(),
            live: BTreeMap::new(),
            rng: Rng::new(0),
            policy: Policy::Exact,
            fail_above: None,
            budget: None,
            op_fail_nth: None,
            burst_left: 0,
            op_calls: 0,
            cur_op: 0,
            used: 0,
            seq: 0,
            n_alloc: 0,
            n_dealloc: 0,
            n_refused: 0,
            fired: [0; 7],
            fail_mod: None,
            errors: Vec::new(),
            handles_created: 0,
            handles_dropped: 0,
            handle_magic_bad: 0,
        }
    }

    pub fn reset(&mut self, seed: u64, policy: Policy) {
        self.rng = Rng::new(seed);
        self.cursor = 4096 + (self.rng.below(256) as usize) * 16;
        self.grants.clear();
        self.refusals.clear();
        self.live.clear();
        self.policy = policy;
        self.fail_above = None;
        self.budget = None;
        self.op_fail_nth = None;
        self.burst_left = 0;
        self.op_calls = 0;
        self.cur_op = 0;
        self.used = 0;
        self.seq = 0;
        self.n_alloc = 0;
        self.n_dealloc = 0;
        self.n_refused = 0;
        self.fired = [0; 7];
        self.fail_mod = None;
        self.errors.clear();
        self.handles_created = 0;
        self.handles_dropped = 0;
        self.handle_magic_bad = 0;
    }

    #[inline]
    pub fn base(&self) -> usize {
        self.base as usize
    }

    /// Offset of an address inside the region (what logs and replay files show).
    #[inline]
    pub fn off(&self, addr: usize) -> usize {
        addr.wrapping_sub(self.base as usize)
    }

    pub fn begin_op(&mut self, op: u32, fail_nth: Option<u32>, burst: u32) {
        self.cur_op = op;
        self.op_calls = 0;
        self.op_fail_nth = fail_nth;
        self.burst_left = burst;
    }

    pub fn end_op(&mut self) {
        self.op_fail_nth = None;
        self.burst_left = 0;
    }

    fn refuse(&mut self, kind: usize, layout: Layout) -> Result<NonNull<[u8]>, AllocError> {
        self.fired[kind] += 1;
        self.n_refused += 1;
        self.refusals.push(Refusal { seq: self.seq, op: self.cur_op, size: layout.size(), align: layout.align(), kind });
        Err(AllocError)
    }

    fn granted_size(&mut self, size: usize) -> usize {
        match self.policy {
            Policy::Exact => size,
            Policy::PlusOdd => size + 1 + 2 * self.rng.below(32) as usize,
            Policy::Pow2 => size.max(1).next_power_of_two(),
            Policy::Page => (size + 4095) & !4095,
            Policy::Times3 => {
                if size <= (256 << 10) {
                    size * 3
                } else {
                    size + 4096
                }
            }
        }
    }

    pub fn allocate(&mut self, layout: Layout) -> Result<NonNull<[u8]>, AllocError> {
        self.seq += 1;
        self.n_alloc += 1;
        self.op_calls += 1;
        let size = layout.size();
        let align = layout.align();

        if size > HUGE {
            return self.refuse(F_HUGE, layout);
        }
        if self.op_fail_nth == Some(self.op_calls) {
            return self.refuse(F_NTH, layout);
        }
        if let Some(k) = self.fail_mod {
            if self.n_alloc % k == 0 {
                return self.refuse(F_MOD, layout);
            }
        }
        if self.burst_left > 0 {
            self.burst_left -= 1;
            return self.refuse(F_BURST, layout);
        }
        if let Some(n) = self.fail_above {
            if size > n {
                return self.refuse(F_ABOVE, layout);
            }
        }
        let granted = self.granted_size(size);
        if let Some(b) = self.budget {
            if self.used + granted > b {
                return self.refuse(F_BUDGET, layout);
            }
        }
        let gap = (self.rng.below(4) as usize) * 16;
        let mut start = (self.cursor + RED + gap + align - 1) & !(align - 1);
        // Only as aligned as requested, so that accidental over-alignment cannot hide a missing alignment step.
        if start % (2 * align) == 0 && self.rng.chance(1, 2) {
            start += align;
        }
        let end = start + granted + RED;
        if end > REGION_SIZE {
            return self.refuse(F_REGION, layout);
        }
        unsafe {
            std::ptr::write_bytes(self.base.add(start - RED), CANARY, RED);
            std::ptr::write_bytes(self.base.add(start), FRESH, granted);
            std::ptr::write_bytes(self.base.add(start + granted), CANARY, RED);
        }
        self.cursor = end;
        self.used += granted;
        let idx = self.grants.len();
        self.grants.push(Grant {
            seq: self.seq,
            op: self.cur_op,
            off: start,
            req_size: size,
            req_align: align,
            granted,
            released: None,
        });
        self.live.insert(start, idx);
        let ptr = unsafe { NonNull::new_unchecked(self.base.add(start)) };
        Ok(NonNull::slice_from_raw_parts(ptr, granted))
    }

    fn canaries_ok(&self, g: &Grant) -> bool {
        unsafe {
            let before = std::slice::from_raw_parts(self.base.add(g.off - RED), RED);
            let after = std::slice::from_raw_parts(self.base.add(g.off + g.granted), RED);
            before.iter().all(|&b| b == CANARY) && after.iter().all(|&b| b == CANARY)
        }
    }

    pub fn deallocate(&mut self, ptr: NonNull<u8>, layout: Layout) {
        self.seq += 1;
        self.n_dealloc += 1;
        let addr = ptr.as_ptr() as usize;
        let off = addr.wrapping_sub(self.base as usize);
        if off >= REGION_SIZE {
            self.errors.push(("C05/release-foreign-pointer", format!("deallocate of a pointer outside the heap, layout {:?}", layout)));
            return;
        }
        let Some(idx) = self.live.remove(&off) else {
            let class = if self.grants.iter().any(|g| g.off == off && g.released.is_some()) {
                "C05/double-release"
            } else {
                "C05/release-unknown-pointer"
            };
            self.errors.push((class, format!("deallocate(off={off:#x}, size={}, align={})", layout.size(), layout.align())));
            return;
        };
        let g = self.grants[idx].clone();
        if layout.align() != g.req_align {
            self.errors.push((
                "C05/release-align",
                format!("block off={off:#x} requested with align {} released with align {}", g.req_align, layout.align()),
            ));
        }
        if layout.size() < g.req_size || layout.size() > g.granted {
            self.errors.push((
                "C05/release-size",
                format!(
                    "block off={off:#x} requested {} granted {} released with size {}",
                    g.req_size,
                    g.granted,
                    layout.size()
                ),
            ));
        }
        if !self.canaries_ok(&g) {
            self.errors.push(("C05/outside-granted", format!("red zone around block off={off:#x} size={} damaged (seen at release)", g.granted)));
        }
        unsafe { std::ptr::write_bytes(self.base.add(g.off), POISON, g.granted) };
        self.used -= g.granted;
        self.grants[idx].released = Some(Release { seq: self.seq, size: layout.size(), align: layout.align(), op: self.cur_op });
    }

    /// Blocks granted and not yet released.
    pub fn outstanding(&self) -> usize {
        self.live.len()
    }

    pub fn outstanding_grants(&self) -> impl Iterator<Item = &Grant> {
        self.live.values().map(|&i| &self.grants[i])
    }

    /// The live grant containing `[addr, addr+len)` entirely, if any.
    pub fn live_grant_containing(&self, addr: usize, len: usize) -> Option<&Grant> {
        let off = addr.wrapping_sub(self.base as usize);
        let (_, &idx) = self.live.range(..=off).next_back()?;
        let g = &self.grants[idx];
        if off >= g.off && off + len <= g.off + g.granted { Some(g) } else { None }
    }

    /// Checks over the recorded history at the end of a run: red zones, poison of released blocks,
    /// and (if `expect_all_released`) that nothing is outstanding.
    pub fn final_check(&mut self, expect_all_released: bool) {
        for i in 0..self.grants.len() {
            let g = self.grants[i].clone();
            if !self.canaries_ok(&g) {
                self.errors.push(("C05/outside-granted", format!("red zone around block off={:#x} size={} damaged", g.off, g.granted)));
            }
            if g.released.is_some() {
                let bytes = unsafe { std::slice::from_raw_parts(self.base.add(g.off), g.granted) };
                if let Some(p) = bytes.iter().position(|&b| b != POISON) {
                    self.errors.push((
                        "C05/write-after-release",
                        format!("released block off={:#x} size={} was written at +{p} after its release", g.off, g.granted),
                    ));
                }
            } else if expect_all_released {
                self.errors.push((
                    "C05/leak",
                    format!("block off={:#x} requested {} granted {} (op {}) never released", g.off, g.req_size, g.granted, g.op),
                ));
            }
        }
    }

    /// Snapshot of all memory currently granted (for the C02 write-set diff). Returns (off, bytes).
    pub fn snapshot_live(&self, max_total: usize) -> Option<Vec<(usize, Vec<u8>)>> {
        if self.used > max_total {
            return None;
        }
        let mut v = Vec::with_capacity(self.live.len());
        for (&off, &idx) in &self.live {
            let g = &self.grants[idx];
            let bytes = unsafe { std::slice::from_raw_parts(self.base.add(off), g.granted) };
            v.push((off, bytes.to_vec()));
        }
        Some(v)
    }

    pub fn read(&self, off: usize, len: usize) -> &[u8] {
        assert!(off + len <= REGION_SIZE);
        unsafe { std::slice::from_raw_parts(self.base.add(off), len) }
    }
}

struct Heaps(UnsafeCell<Option<Box<[Heap; 2]>>>);

thread_local! {
    static HEAPS: Heaps = const { Heaps(UnsafeCell::new(None)) };
}

/// Access to one of the (per-thread) simulated heaps. Calls never nest: the closure must not
/// call into the arena.
pub fn with<R>(i: usize, f: impl FnOnce(&mut Heap) -> R) -> R {
    HEAPS.with(|h| {
        let slot = unsafe { &mut *h.0.get() };
        let heaps = slot.get_or_insert_with(|| Box::new([Heap::new(), Heap::new()]));
        f(&mut heaps[i])
    })
}

const MAGIC: u64 = 0x5148_4541_5021_0000;

macro_rules! handle {
    ($name:ident, $kind:expr, $(#[$attr:meta])* { $($field:ident : $ty:ty = $init:expr),* }) => {
        $(#[$attr])*
        #[derive(Debug)]
        pub struct $name<const HEAP: usize> { $($field: $ty),* }

        impl<const HEAP: usize> $name<HEAP> {
            #[allow(unused)]
            fn check(&self) {
                $( if self.$field != $init { with(HEAP, |h| h.handle_magic_bad += 1); } )*
            }
            pub const KIND: u8 = $kind;
        }

        impl<const HEAP: usize> Default for $name<HEAP> {
            fn default() -> Self {
                with(HEAP, |h| h.handles_created += 1);
                Self { $($field: $init),* }
            }
        }

        impl<const HEAP: usize> Clone for $name<HEAP> {
            fn clone(&self) -> Self {
                self.check();
                with(HEAP, |h| h.handles_created += 1);
                Self { $($field: $init),* }
            }
        }

        impl<const HEAP: usize> Drop for $name<HEAP> {
            fn drop(&mut self) {
                self.check();
                with(HEAP, |h| h.handles_dropped += 1);
            }
        }

        unsafe impl<const HEAP: usize> Allocator for $name<HEAP> {
            fn allocate(&self, layout: Layout) -> Result<NonNull<[u8]>, AllocError> {
                self.check();
                with(HEAP, |h| h.allocate(layout))
            }

            unsafe fn deallocate(&self, ptr: NonNull<u8>, layout: Layout) {
                self.check();
                with(HEAP, |h| h.deallocate(ptr, layout))
            }
        }
    };
}

handle!(H0, 0, {});
handle!(H8, 1, { a: u64 = MAGIC | 8 });
handle!(H24, 2, { a: u64 = MAGIC | 24, b: u64 = MAGIC | 25, c: u64 = MAGIC | 26 });
handle!(H32, 3, #[repr(align(32))] { a: u64 = MAGIC | 32 });
handle!(H64, 4, #[repr(align(64))] { a: u64 = MAGIC | 64 });

pub const AKIND_NAMES: [&str; 5] = ["H0(zst)", "H8(8B)", "H24(24B)", "H32(align32)", "H64(align64)"];
/// (size, align) of `ChunkHeader<A>` for each handle kind: 4 pointers + A, `repr(C, align(16))`.
pub const HEADER_LAYOUT: [(usize, usize); 5] = [(32, 16), (48, 16), (64, 16), (64, 32), (128, 64)];
