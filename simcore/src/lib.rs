//! Deterministic simulation with fault injection for `bump-scope`: shared machinery.
//!
//! * `rng`    – the single PRNG everything is derived from
//! * `heap`   – SimHeap, the simulated base allocator (the seam) and its ledger
//! * `trace`  – operations, replay files (text), violations
//! * `runner` – worker command line / batch protocol shared by all world binaries

pub mod heap;
pub mod rng;
pub mod runner;
pub mod trace;
pub mod pattern;
