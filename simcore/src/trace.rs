//! Abstract operations, replay files and violations.
//!
//! A run is completely described by a `Trace`: the world, named integer parameters
//! (configuration id, allocator kind, heap policy, heap seed, run-level faults, ...) and a list of
//! operations `(kind, up to 6 integer arguments, attached faults)`. Selectors inside operations
//! are indices taken modulo the number of eligible actors at execution time, so deleting
//! operations (minimisation) leaves the rest meaningful. Faults are attached to operations
//! ("during this op the j-th base-allocator call fails", "the j-th callback panics").

use std::fmt::Write;

pub const NARGS: usize = 6;

#[derive(Clone, Debug, PartialEq, Eq, Default)]
pub struct Op {
    pub kind: u16,
    pub a: [u64; NARGS],
    /// j-th base-allocator call during this op is refused (0 = none).
    pub fail_nth: u32,
    /// the next m base-allocator calls during this op are refused.
    pub burst: u32,
    /// j-th user callback during this op panics (0 = none).
    pub panic_at: u32,
}

impl Op {
    pub fn new(kind: u16, args: &[u64]) -> Op {
        let mut a = [0; NARGS];
        a[..args.len()].copy_from_slice(args);
        Op { kind, a, fail_nth: 0, burst: 0, panic_at: 0 }
    }
}

#[derive(Clone, Debug, Default)]
pub struct Trace {
    pub world: String,
    pub prop: String,
    pub seed: u64,
    pub params: Vec<(String, u64)>,
    pub expect: Option<String>,
    pub ops: Vec<Op>,
}

impl Trace {
    pub fn param(&self, name: &str) -> Option<u64> {
        self.params.iter().find(|(n, _)| n == name).map(|(_, v)| *v)
    }

    pub fn param_or(&self, name: &str, default: u64) -> u64 {
        self.param(name).unwrap_or(default)
    }

    pub fn set_param(&mut self, name: &str, v: u64) {
        if let Some(p) = self.params.iter_mut().find(|(n, _)| n == name) {
            p.1 = v;
        } else {
            self.params.push((name.to_string(), v));
        }
    }

    pub fn to_text(&self, names: &[&str]) -> String {
        let mut s = String::new();
        s.push_str("# bump-scope sim replay v1\n");
        writeln!(s, "world {}", self.world).unwrap();
        writeln!(s, "prop {}", self.prop).unwrap();
        writeln!(s, "seed {}", self.seed).unwrap();
        for (n, v) in &self.params {
            writeln!(s, "param {n} {v}").unwrap();
        }
        if let Some(e) = &self.expect {
            writeln!(s, "expect {e}").unwrap();
        }
        for op in &self.ops {
            s.push_str(&op_text(op, names));
            s.push('\n');
        }
        s
    }

    pub fn parse(text: &str, names: &[&str]) -> Result<Trace, String> {
        let mut t = Trace::default();
        for (ln, line) in text.lines().enumerate() {
            let line = line.trim();
            if line.is_empty() || line.starts_with('#') {
                continue;
            }
            let mut it = line.split_whitespace();
            let head = it.next().unwrap();
            let err = |m: &str| format!("line {}: {m}: {line}", ln + 1);
            match head {
                "world" => t.world = it.next().ok_or_else(|| err("missing value"))?.to_string(),
                "prop" => t.prop = it.next().ok_or_else(|| err("missing value"))?.to_string(),
                "seed" => t.seed = it.next().and_then(|v| v.parse().ok()).ok_or_else(|| err("bad seed"))?,
                "expect" => t.expect = Some(it.next().ok_or_else(|| err("missing value"))?.to_string()),
                "param" => {
                    let n = it.next().ok_or_else(|| err("missing name"))?;
                    let v = it.next().and_then(|v| v.parse().ok()).ok_or_else(|| err("bad value"))?;
                    t.params.push((n.to_string(), v));
                }
                "op" => {
                    let name = it.next().ok_or_else(|| err("missing op name"))?;
                    let kind = names.iter().position(|n| *n == name).ok_or_else(|| err("unknown op"))? as u16;
                    let mut op = Op::new(kind, &[]);
                    let mut i = 0;
                    for tok in it {
                        if let Some(v) = tok.strip_prefix("nth=") {
                            op.fail_nth = v.parse().map_err(|_| err("bad nth"))?;
                        } else if let Some(v) = tok.strip_prefix("burst=") {
                            op.burst = v.parse().map_err(|_| err("bad burst"))?;
                        } else if let Some(v) = tok.strip_prefix("panic=") {
                            op.panic_at = v.parse().map_err(|_| err("bad panic"))?;
                        } else {
                            if i >= NARGS {
                                return Err(err("too many arguments"));
                            }
                            op.a[i] = tok.parse().map_err(|_| err("bad argument"))?;
                            i += 1;
                        }
                    }
                    t.ops.push(op);
                }
                _ => return Err(err("unknown directive")),
            }
        }
        Ok(t)
    }
}

pub fn op_text(op: &Op, names: &[&str]) -> String {
    let mut s = format!("op {}", names.get(op.kind as usize).copied().unwrap_or("?"));
    let last = op.a.iter().rposition(|&x| x != 0).map_or(0, |i| i + 1);
    for v in &op.a[..last] {
        write!(s, " {v}").unwrap();
    }
    if op.fail_nth != 0 {
        write!(s, " nth={}", op.fail_nth).unwrap();
    }
    if op.burst != 0 {
        write!(s, " burst={}", op.burst).unwrap();
    }
    if op.panic_at != 0 {
        write!(s, " panic={}", op.panic_at).unwrap();
    }
    s
}

#[derive(Clone, Debug)]
pub struct Violation {
    /// e.g. "C02/realloc-prefix": property id, slash, stable class tag.
    pub class: String,
    pub op_index: usize,
    pub msg: String,
}

impl Violation {
    pub fn prop(&self) -> &str {
        self.class.split('/').next().unwrap_or("")
    }
}

/// Minimal JSON string escaping (the workers emit JSON by hand; no serde).
pub fn json_str(s: &str) -> String {
    let mut o = String::with_capacity(s.len() + 2);
    o.push('"');
    for c in s.chars() {
        match c {
            '"' => o.push_str("\\\""),
            '\\' => o.push_str("\\\\"),
            '\n' => o.push_str("\\n"),
            '\r' => o.push_str("\\r"),
            '\t' => o.push_str("\\t"),
            c if (c as u32) < 0x20 => {
                write!(o, "\\u{:04x}", c as u32).unwrap();
            }
            c => o.push(c),
        }
    }
    o.push('"');
    o
}
