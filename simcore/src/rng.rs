//! The only source of randomness in the simulator: SplitMix64, seeded from one integer.
//! No thread-local RNG, no clock, no address bits, no hash-map iteration order.

#[derive(Clone, Debug)]
pub struct Rng(pub u64);

pub fn mix(a: u64, b: u64) -> u64 {
    let mut r = Rng(a ^ b.wrapping_mul(0x9E37_79B9_7F4A_7C15).rotate_left(17));
    r.next();
    r.next()
}

impl Rng {
    pub fn new(seed: u64) -> Self {
        let mut r = Rng(seed ^ 0xD6E8_FEB8_6659_FD93);
        r.next();
        r
    }

    /// Independent sub-stream: adding a draw in one stream never shifts another.
    pub fn fork(&self, label: u64) -> Rng {
        Rng::new(mix(self.0, label))
    }

    #[inline]
    pub fn next(&mut self) -> u64 {
        self.0 = self.0.wrapping_add(0x9E37_79B9_7F4A_7C15);
        let mut z = self.0;
        z = (z ^ (z >> 30)).wrapping_mul(0xBF58_476D_1CE4_E5B9);
        z = (z ^ (z >> 27)).wrapping_mul(0x94D0_49BB_1331_11EB);
        z ^ (z >> 31)
    }

    /// Uniform in `0..n` (n > 0).
    #[inline]
    pub fn below(&mut self, n: u64) -> u64 {
        debug_assert!(n > 0);
        ((self.next() as u128 * n as u128) >> 64) as u64
    }

    #[inline]
    pub fn range(&mut self, lo: u64, hi_incl: u64) -> u64 {
        lo + self.below(hi_incl - lo + 1)
    }

    #[inline]
    pub fn chance(&mut self, num: u64, den: u64) -> bool {
        self.below(den) < num
    }

    pub fn pick<'a, T>(&mut self, xs: &'a [T]) -> &'a T {
        &xs[self.below(xs.len() as u64) as usize]
    }

    /// Index drawn according to integer weights.
    pub fn weighted(&mut self, w: &[u32]) -> usize {
        let total: u64 = w.iter().map(|&x| x as u64).sum();
        debug_assert!(total > 0);
        let mut x = self.below(total);
        for (i, &wi) in w.iter().enumerate() {
            if x < wi as u64 {
                return i;
            }
            x -= wi as u64;
        }
        w.len() - 1
    }
}
